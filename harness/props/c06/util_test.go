package c06

import (
	"testing"

	"github.com/ethereum/go-ethereum/accounts/abi"
	"github.com/ethereum/go-ethereum/common"
	"github.com/ethereum/go-ethereum/crypto"

	erc20contracts "github.com/teleport-network/teleport/syscontracts/erc20"

	"verif/harness/rec"
)

func TestMain(m *testing.M) { rec.Main(m) }

func bridgeERC20() abi.ABI { return erc20contracts.ERC20MinterBurnerDecimalsContract.ABI }

func cryptoCreate(a common.Address, nonce uint64) common.Address {
	return crypto.CreateAddress(a, nonce)
}
