package c13

import (
	"bytes"
	"encoding/json"
	"fmt"
	"strings"
	"sync"

	sdk "github.com/cosmos/cosmos-sdk/types"
	paramstypes "github.com/cosmos/cosmos-sdk/x/params/types"

	aggregatemodule "github.com/teleport-network/teleport/x/aggregate/module"
	aggregatetypes "github.com/teleport-network/teleport/x/aggregate/types"
	rvestingmodule "github.com/teleport-network/teleport/x/rvesting/module"
	rvestingtypes "github.com/teleport-network/teleport/x/rvesting/types"
	clientkeeper "github.com/teleport-network/teleport/x/xibc/core/client/keeper"
	"github.com/teleport-network/teleport/x/xibc/core/host"
	xibcmodule "github.com/teleport-network/teleport/x/xibc/module"

	"verif/harness/kf"
	"verif/harness/kit"
)

type clientKeeperT = clientkeeper.Keeper

// Finding keys of C13 (see /verif/proposed_fixes/C13-*.md) and the C19 keys C13 depends on.
const (
	keyEthConsType   = "eth-consensus-client-type"
	keyTMIterKeys    = "tm-iteration-keys-not-exported"
	keyZeroHeight    = "zero-height-client-export-invalid"
	keyTSSZeroHeight = "tss-consensus-state-at-zero-height"
	keyC19ConsIter   = "slash-height-client-keeper-iterate-consensus-states"
	keyC19Clients    = "slash-height-client-keeper-iterate-clients"
	keyC19TMProcess  = "slash-height-tm-iterate-processed-time"
)

var moduleNames = []string{host.ModuleName, aggregatetypes.ModuleName, rvestingtypes.ModuleName}

var (
	baseOnce, freshOnce sync.Once
	base, fresh         *kit.Chain
)

// baseChain is the chain whose cache branches carry the generated source states.
func baseChain() *kit.Chain {
	baseOnce.Do(func() { base = kit.NewChain("teleport_9000-1", kit.ChainOpts{Seed: []byte("c13-src")}) })
	return base
}

// freshChain is a second, independent application instance; every import runs on a cache branch of
// it from which the module state a new chain starts with was removed.
func freshChain() *kit.Chain {
	freshOnce.Do(func() { fresh = kit.NewChain("teleport_9001-1", kit.ChainOpts{Seed: []byte("c13-dst")}) })
	return fresh
}

// moduleDump is the state the three modules own: the whole xibc and aggregate stores and the
// aggregate / rvesting parameter subspaces.
func moduleDump(c *kit.Chain, ctx sdk.Context) kit.Dump {
	d := c.DumpStores(ctx, host.StoreKey, aggregatetypes.StoreKey, paramstypes.StoreKey)
	var kept []kit.KV
	for _, kv := range d[paramstypes.StoreKey] {
		if bytes.HasPrefix(kv.K, []byte(aggregatetypes.ModuleName+"/")) || bytes.HasPrefix(kv.K, []byte(rvestingtypes.ModuleName+"/")) {
			kept = append(kept, kv)
		}
	}
	d[paramstypes.StoreKey] = kept
	return d
}

// clearModules deletes everything moduleDump reads (what a fresh chain already contains by default:
// its own chain name, default parameters).
func clearModules(c *kit.Chain, ctx sdk.Context) {
	for store, kvs := range moduleDump(c, ctx) {
		st := ctx.KVStore(c.App.GetKey(store))
		for _, kv := range kvs {
			st.Delete(kv.K)
		}
	}
}

func caught(f func()) (msg string) {
	defer func() {
		if e := recover(); e != nil {
			if he, ok := e.(kit.HarnessError); ok {
				panic(he)
			}
			msg = fmt.Sprint(e)
			if i := strings.Index(msg, "\ngoroutine"); i > 0 {
				msg = msg[:i]
			}
			if len(msg) > 400 {
				msg = msg[:400] + "…"
			}
		}
	}()
	f()
	return ""
}

// exportModules runs the three modules' AppModule.ExportGenesis (JSON through the app codec).
func exportModules(c *kit.Chain, ctx sdk.Context) (g map[string]json.RawMessage, panicMsg string) {
	g = map[string]json.RawMessage{}
	cdc := c.App.AppCodec()
	panicMsg = caught(func() {
		g[host.ModuleName] = xibcmodule.NewAppModule(c.App.XIBCKeeper).ExportGenesis(ctx, cdc)
		g[aggregatetypes.ModuleName] = aggregatemodule.NewAppModule(*c.App.AggregateKeeper, c.App.AccountKeeper).ExportGenesis(ctx, cdc)
		g[rvestingtypes.ModuleName] = rvestingmodule.NewAppModule(c.App.RVestingKeeper).ExportGenesis(ctx, cdc)
	})
	return
}

// validateModules runs each module's own genesis validation (AppModuleBasic.ValidateGenesis).
func validateModules(c *kit.Chain, g map[string]json.RawMessage) map[string]error {
	cdc := c.App.AppCodec()
	out := map[string]error{}
	out[host.ModuleName] = xibcmodule.AppModuleBasic{}.ValidateGenesis(cdc, c.TxConfig, g[host.ModuleName])
	out[aggregatetypes.ModuleName] = aggregatemodule.AppModuleBasic{}.ValidateGenesis(cdc, c.TxConfig, g[aggregatetypes.ModuleName])
	out[rvestingtypes.ModuleName] = rvestingmodule.AppModuleBasic{}.ValidateGenesis(cdc, c.TxConfig, g[rvestingtypes.ModuleName])
	return out
}

// importModules runs the three modules' AppModule.InitGenesis.
func importModules(c *kit.Chain, ctx sdk.Context, g map[string]json.RawMessage) (panicMsg string) {
	cdc := c.App.AppCodec()
	return caught(func() {
		xibcmodule.NewAppModule(c.App.XIBCKeeper).InitGenesis(ctx, cdc, g[host.ModuleName])
		aggregatemodule.NewAppModule(*c.App.AggregateKeeper, c.App.AccountKeeper).InitGenesis(ctx, cdc, g[aggregatetypes.ModuleName])
		rvestingmodule.NewAppModule(c.App.RVestingKeeper).InitGenesis(ctx, cdc, g[rvestingtypes.ModuleName])
	})
}

// violation is one failed oracle clause.
type violation struct {
	Clause string // export-panic | validate | import-panic | dump | re-export
	Msg    string
}

func (v *violation) String() string { return v.Clause + ": " + v.Msg }

// tolerance says which oracle clauses are withheld because of listed known findings, and counts.
type tolerance struct {
	ethValidate bool // states with an ETH consensus state: the type-agreement error of Validate is the listed finding
	tmIterKeys  bool // TM iteration keys are withheld from the dump comparison
	count       func(key string, n int)
}

const ethTypeErr = "consensus state client type bsc does not equal client state client type eth"

func isTMIterKey(e kit.DiffEntry) bool {
	if e.Store != host.StoreKey || e.After != nil || !bytes.HasPrefix(e.Key, []byte("clients/")) {
		return false
	}
	rest := e.Key[len("clients/"):]
	i := bytes.IndexByte(rest, '/')
	return i >= 0 && bytes.HasPrefix(rest[i+1:], []byte("iterateConsensusStates"))
}

// roundTrip evaluates the property on the state held by (src, sctx): export, validate, import into a
// cleared branch of dst, compare the module state key by key, export again.
func roundTrip(src *kit.Chain, sctx sdk.Context, dst *kit.Chain, tol tolerance) (map[string]json.RawMessage, *violation) {
	dump0 := moduleDump(src, sctx)
	g, pm := exportModules(src, sctx)
	if pm != "" {
		return g, &violation{"export-panic", pm}
	}
	errs := validateModules(src, g)
	for _, m := range moduleNames {
		err := errs[m]
		if err == nil {
			continue
		}
		if m == host.ModuleName && tol.ethValidate && err.Error() == ethTypeErr {
			tol.count(keyEthConsType, 1)
			continue
		}
		return g, &violation{"validate", fmt.Sprintf("%s genesis validation rejects the export: %v", m, err)}
	}
	dctx, _ := dst.Ctx().CacheContext()
	clearModules(dst, dctx)
	if pm := importModules(dst, dctx, g); pm != "" {
		return g, &violation{"import-panic", pm}
	}
	dump1 := moduleDump(dst, dctx)
	diff := kit.Diff(dump0, dump1)
	if tol.tmIterKeys {
		var rest []kit.DiffEntry
		n := 0
		for _, e := range diff {
			if isTMIterKey(e) {
				n++
				continue
			}
			rest = append(rest, e)
		}
		if n > 0 {
			tol.count(keyTMIterKeys, n)
		}
		diff = rest
	}
	if len(diff) > 0 {
		return g, &violation{"dump", fmt.Sprintf("module state after export+import differs in %d keys (before -> after):\n%s", len(diff), kit.DiffString(diff, 10))}
	}
	g2, pm := exportModules(dst, dctx)
	if pm != "" {
		return g, &violation{"export-panic", "second export: " + pm}
	}
	for _, m := range moduleNames {
		if !bytes.Equal(g[m], g2[m]) {
			return g, &violation{"re-export", fmt.Sprintf("%s: export of the re-imported state differs\nfirst:  %s\nsecond: %s", m, clip(string(g[m]), 600), clip(string(g2[m]), 600))}
		}
	}
	return g, nil
}

func clip(s string, n int) string {
	if len(s) > n {
		return s[:n] + "…"
	}
	return s
}

func listed(key string) bool { return kf.Listed("C13", key) }

// slashListed reports whether heights containing byte 0x2f are lost by one of the C19-listed iterators
// the export of a client of this type goes through (returns the first listed key).
func slashListed(typ string) (string, bool) {
	keys := []string{keyC19ConsIter, keyC19Clients}
	if typ == tTM {
		keys = append(keys, keyC19TMProcess)
	}
	for _, k := range keys {
		if kf.Listed("C19", k) {
			return k, true
		}
	}
	return "", false
}
