// Package kf reads /verif/KNOWN_FINDINGS.txt (read-only at run time).
//
// Line formats (anything else is a comment):
//
//	finding: property=<ID> key=<stable-key> <what fails>
//	fixed: property=<ID> <commit> <what failed>
//
// Only "finding:" lines matter to the checks: a listed key is excluded from generation by
// construction (and counted), and its pinned reproduction prints a KNOWN-FINDING line instead of failing.
package kf

import (
	"bufio"
	"fmt"
	"os"
	"path/filepath"
	"strings"
	"sync"
)

type Finding struct{ Property, Key, Text string }

var (
	once     sync.Once
	findings []Finding
)

func load() {
	root := os.Getenv("VERIF_ROOT")
	if root == "" {
		root = "/verif"
	}
	f, err := os.Open(filepath.Join(root, "KNOWN_FINDINGS.txt"))
	if err != nil {
		return
	}
	defer f.Close()
	sc := bufio.NewScanner(f)
	sc.Buffer(make([]byte, 1<<20), 1<<20)
	for sc.Scan() {
		line := strings.TrimSpace(sc.Text())
		if !strings.HasPrefix(line, "finding:") {
			continue
		}
		fields := strings.Fields(strings.TrimPrefix(line, "finding:"))
		var fd Finding
		var rest []string
		for _, w := range fields {
			switch {
			case strings.HasPrefix(w, "property=") && fd.Property == "":
				fd.Property = strings.TrimPrefix(w, "property=")
			case strings.HasPrefix(w, "key=") && fd.Key == "":
				fd.Key = strings.TrimPrefix(w, "key=")
			default:
				rest = append(rest, w)
			}
		}
		fd.Text = strings.Join(rest, " ")
		if fd.Property != "" && fd.Key != "" {
			findings = append(findings, fd)
		}
	}
}

// Listed reports whether (property, key) is a listed known finding.
func Listed(property, key string) bool {
	once.Do(load)
	for _, f := range findings {
		if f.Property == property && f.Key == key {
			return true
		}
	}
	return false
}

// Text returns the description of a listed finding.
func Text(property, key string) string {
	once.Do(load)
	for _, f := range findings {
		if f.Property == property && f.Key == key {
			return f.Text
		}
	}
	return ""
}

// Report prints the KNOWN-FINDING line for a listed finding that still reproduces.
func Report(property, key string) {
	fmt.Printf("KNOWN-FINDING: property=%s key=%s %s\n", property, key, Text(property, key))
}
