// C02 for EVM counterparties: ETH (Rinkeby mode) and BSC light clients driven at message level.
//
// One real kit chain carries an ETH client ("eth-sim") and a BSC client ("bsc-sim"), each following a
// simulated chain whose headers carry the state root of an evmsim world. The world's XIBC contract storage
// holds sha256(packet) under the commitment slot for packets the simulated chain "sent" to the kit chain and
// sha256(ack) under the ack slot for packets the kit chain really sent to it. MsgRecvPacket /
// MsgAcknowledgement are delivered through DeliverTx with the eth_getProof-shaped JSON of the world,
// unaltered or with 1-3 alterations; the verdict comes from an independent reference (go-ethereum ABI
// decode, canonical bytes, sha256, slot written out in c08.RefSlot, the MPT walk of c08.RefVerify, the root the
// client stored at the stated height, and the height gate).
package c02

import (
	"bytes"
	"crypto/sha256"
	"encoding/binary"
	"encoding/json"
	"fmt"
	"math/big"
	"sort"
	"strings"
	"testing"
	"time"

	sdk "github.com/cosmos/cosmos-sdk/types"
	"github.com/ethereum/go-ethereum/common"
	gethtypes "github.com/ethereum/go-ethereum/core/types"
	"github.com/ethereum/go-ethereum/crypto"
	"pgregory.net/rapid"

	erc20contracts "github.com/teleport-network/teleport/syscontracts/erc20"
	endpointcontract "github.com/teleport-network/teleport/syscontracts/xibc_endpoint"
	bsctypes "github.com/teleport-network/teleport/x/xibc/clients/light-clients/bsc/types"
	ethtypes "github.com/teleport-network/teleport/x/xibc/clients/light-clients/eth/types"
	clienttypes "github.com/teleport-network/teleport/x/xibc/core/client/types"
	packettypes "github.com/teleport-network/teleport/x/xibc/core/packet/types"
	"github.com/teleport-network/teleport/x/xibc/exported"

	"verif/harness/kit"
	"verif/harness/props/c08"
	"verif/harness/rec"
	"verif/harness/sim/bridge"
	"verif/harness/sim/bscsim"
	"verif/harness/sim/ethsim"
	"verif/harness/sim/evmsim"
)

const (
	evmKitID = "teleport_9000-1"
	ethName  = "eth-sim"
	bscName  = "bsc-sim"
)

const evmRule = "rapid state machine on one real chain with an ETH (Rinkeby mode) and a BSC light client, each following a simulated chain whose headers carry the state root of a " +
	"go-ethereum MPT world (XIBC contract storage = sha256 commitments of packets sent to this chain and sha256 acks of packets this chain really sent; twin account, 3-30 other accounts, filler slots, decoys under the other path); " +
	"actions: counterparty commits a packet / writes an ack, this chain sends, valid header updates (ETH also forks that leave consensus states above the head), block commits, and " +
	"MsgRecvPacket / MsgAcknowledgement through DeliverTx with 0-3 alterations from a catalogue (packet: src, dst, sequence, sender, transfer data, call data, callback, fee option, other committed packet's bytes, re-encoding, truncation; " +
	"proof: other slot's storage proof / nodes / key, twin account's whole proof, other account's nodes, account field, storage_hash+storage_proof of a forged trie holding the wanted value at the wanted slot, value text, leaf value, " +
	"node dropped / duplicated / bit-flipped, zero / two storage proofs, exclusion proof, proof of the other path, proof regenerated for the altered message, proof taken at the head, address text re-encoded, empty, garbage; " +
	"height: other stored, below the first, above the head, within the confirmation delay, other revision, zero, each with or without a proof regenerated at that height; ack: code, result, message, relayer, fee option, other packet's ack, empty; signer registered or not); " +
	"verdict by an independent reference (go-ethereum ABI + sha256 + own slot formula + own MPT/RLP walk against the root the client stored at the stated height and the configured contract, " +
	"AND consensus state exists AND height <= head AND head-height >= confirmation blocks, AND for acks this chain still stores exactly that commitment); receives accept-iff-valid, acks accepted-only-if-valid, rejected => ordered dump of xibc/evm/bank/aggregate unchanged; " +
	"non-trivial = a delivered message with >= 1 alteration; distinct by (message kind, client type, set of alterations, reference verdict)"

var evmDumpStores = []string{"xibc", "evm", "bank", "aggregate"}

var evmERC20 = erc20contracts.ERC20MinterBurnerDecimalsContract.ABI

// ---- drawn filler ------------------------------------------------------------------------------

// rb expands one drawn 64-bit value into n bytes (keccak stream salted with the label, so that equal draws
// under different labels give different bytes).
func rb(t *rapid.T, label string, n int) []byte {
	var seed [8]byte
	binary.BigEndian.PutUint64(seed[:], rapid.Uint64().Draw(t, label))
	blk := crypto.Keccak256(seed[:], []byte(label))
	var out []byte
	for len(out) < n {
		out = append(out, blk...)
		blk = crypto.Keccak256(blk)
	}
	return out[:n]
}

func rhash(t *rapid.T, label string) common.Hash { return common.BytesToHash(rb(t, label, 32)) }
func raddr(t *rapid.T, label string) common.Address {
	return common.BytesToAddress(rb(t, label, 20))
}
func lowerHex(a common.Address) string { return strings.ToLower(a.Hex()) }

// ---- the simulated counterparties --------------------------------------------------------------

// evmIn is a packet the simulated chain sent to the kit chain.
type evmIn struct {
	seq  uint64
	bz   []byte
	desc string
	at   uint64 // lowest accepted sim height whose world holds the commitment (0 = none yet)
}

// evmOut is a packet the kit chain sent to the simulated chain.
type evmOut struct {
	seq     uint64
	bz      []byte
	desc    string
	ackBz   []byte // acknowledgement decided by the simulated chain (nil = none yet)
	ackAt   uint64 // lowest accepted sim height whose world holds the ack hash (0 = none yet)
	acked   bool   // model: an acknowledgement of this packet was accepted by the kit chain
	refused bool   // the genuine acknowledgement was refused once (contract-side processing): not preferred again
}

type evmSide struct {
	typ, name string
	contract  common.Address
	twin      common.Address
	nonce     uint64
	balance   *big.Int
	codeHash  common.Hash
	storage   map[common.Hash][]byte // current storage of the XIBC contract
	extras    []*evmsim.Account
	cur       *evmsim.World // world of the current storage (nil = to be rebuilt)

	worlds  map[uint64]*evmsim.World // world whose root the client's consensus state at that height holds
	first   uint64                   // height the client was created at
	head    uint64
	maxSeen uint64 // highest height ever stored (ETH forks lower the head)
	delay   uint64

	ethHdr map[uint64]*gethtypes.Header // ETH: headers of the current main chain

	bscHead    *bscsim.Header
	bscKeys    []bscsim.Key
	bscVals    []common.Address
	bscEpoch   uint64
	bscChainID uint64

	token    common.Address // ERC-20 on the kit chain bound to (oriToken, name)
	oriToken string
	relAddr  string // the registered relayer's address on the simulated chain

	in     []*evmIn
	out    []*evmOut
	nextIn uint64
}

func (s *evmSide) world() *evmsim.World {
	if s.cur != nil {
		return s.cur
	}
	cp := func() map[common.Hash][]byte {
		m := make(map[common.Hash][]byte, len(s.storage))
		for k, v := range s.storage {
			m[k] = v
		}
		return m
	}
	accts := []*evmsim.Account{
		{Addr: s.contract, Nonce: s.nonce, Balance: s.balance, CodeHash: s.codeHash, Storage: cp()},
		// the twin has the same code, the same storage and its own balance: every part of its proof verifies, only the address differs
		{Addr: s.twin, Nonce: s.nonce, Balance: new(big.Int).Add(s.balance, big.NewInt(1)), CodeHash: s.codeHash, Storage: cp()},
	}
	accts = append(accts, s.extras...)
	s.cur = evmsim.NewWorld(accts)
	return s.cur
}

func (s *evmSide) put(slot common.Hash, value []byte) {
	s.storage[slot] = evmsim.WordLeaf(common.BytesToHash(value))
	s.cur = nil
}

func evmSlot(ack bool, src, dst string, seq uint64) common.Hash {
	if ack {
		return evmsim.Slot(evmsim.AckPath(src, dst, seq))
	}
	return evmsim.Slot(evmsim.CommitmentPath(src, dst, seq))
}

// stamp records that the client now holds a consensus state at height h with the current world's root.
func (s *evmSide) stamp(h uint64) {
	s.worlds[h] = s.world()
	s.head = h
	if h > s.maxSeen {
		s.maxSeen = h
	}
	for _, p := range s.in {
		if p.at == 0 || p.at > h {
			p.at = h
		}
	}
	for _, p := range s.out {
		if p.ackBz != nil && (p.ackAt == 0 || p.ackAt > h) {
			p.ackAt = h
		}
	}
}

// storedHeights lists the heights for which the model knows a stored consensus state, ascending.
func (s *evmSide) storedHeights() []uint64 {
	var out []uint64
	for h := s.first; h <= s.maxSeen; h++ {
		if _, ok := s.worlds[h]; ok {
			out = append(out, h)
		}
	}
	return out
}

// ---- controller --------------------------------------------------------------------------------

type evmStep struct {
	Op  string `json:"op"`
	Arg string `json:"arg,omitempty"`
	Res string `json:"res,omitempty"`
}

type evmCtl struct {
	t *rapid.T
	r *rec.Recorder
	c *kit.Chain

	user, recvr, rel, outsider kit.Account
	sides                      []*evmSide
	target                     common.Address

	accepted  map[string]bool // "src>dst#seq" of accepted receives
	nAccepted int
	hist      []evmStep
	cases     map[string]bool
	nt        bool
}

func (c *evmCtl) log(op, arg, res string) { c.hist = append(c.hist, evmStep{op, arg, res}) }

func (c *evmCtl) failf(format string, a ...interface{}) {
	h := c.hist
	if len(h) > 60 {
		h = h[len(h)-60:]
	}
	bz, _ := json.Marshal(h)
	c.t.Fatalf("%s\nhistory(last %d of %d)=%s", fmt.Sprintf(format, a...), len(h), len(c.hist), bz)
}

func (c *evmCtl) side(name string) *evmSide {
	for _, s := range c.sides {
		if s.name == name {
			return s
		}
	}
	return nil
}

func tripleKey(src, dst string, seq uint64) string { return fmt.Sprintf("%s>%s#%d", src, dst, seq) }

func newEvmCtl(t *rapid.T, r *rec.Recorder) *evmCtl {
	c := &evmCtl{t: t, r: r, accepted: map[string]bool{}, cases: map[string]bool{}}
	seed := rapid.SliceOfN(rapid.Byte(), 2, 2).Draw(t, "seed")
	mk := func(tag string) kit.Account { return kit.NewAccount(append([]byte("c02evm-"+tag), seed...)) }
	c.user, c.recvr, c.rel, c.outsider = mk("user"), mk("recvr"), mk("rel"), mk("outsider")
	c.c = kit.NewChain(evmKitID, kit.ChainOpts{Seed: append([]byte("c02evm"), seed...), Accounts: []kit.Account{c.user, c.recvr, c.rel, c.outsider}})
	ch := c.c
	c.target = ch.DeployERC20("target", "TGT", 18)

	c.sides = []*evmSide{c.newSide(t, exported.ETH, ethName), c.newSide(t, exported.BSC, bscName)}
	if c.sides[0].contract == c.sides[1].contract {
		kit.Failf("both simulated chains drew the same contract address")
	}
	ch.RegisterRelayer(c.rel.Acc, []string{ethName, bscName}, []string{c.sides[0].relAddr, c.sides[1].relAddr})
	big1 := new(big.Int).Lsh(big.NewInt(1), 200)
	for _, s := range c.sides {
		s.token = ch.DeployERC20("wrapped-"+s.typ, "W"+strings.ToUpper(s.typ), 18)
		kit.Must(ch.BindToken(s.token, s.oriToken, s.name, 0), "bind token of "+s.name)
	}
	ch.Commit(5 * time.Second)
	for _, s := range c.sides {
		for _, u := range []kit.Account{c.user, c.recvr} {
			if res := ch.Approve(u, s.token, endpointcontract.EndpointContractAddress, big1); !res.Succeeded() {
				kit.Failf("approve failed: %d %s %s", res.Code, res.Log, res.VmError)
			}
		}
	}
	ch.Commit(5 * time.Second)

	// a deliverable state to start from: committed packets, sends with decided acks, clients past the delay
	for _, s := range c.sides {
		for i := rapid.IntRange(1, 2).Draw(t, "setupSends"); i > 0; i-- {
			c.sendOut(t, s)
		}
		for _, o := range s.out {
			if rapid.IntRange(0, 3).Draw(t, "setupAck") != 0 {
				c.decideAck(t, s, o)
			}
		}
		for i := int(s.delay) + rapid.IntRange(1, 3).Draw(t, "setupHeaders"); i > 0; i-- {
			c.advance(t, s)
		}
	}
	return c
}

func (c *evmCtl) newSide(t *rapid.T, typ, name string) *evmSide {
	ch := c.c
	s := &evmSide{typ: typ, name: name, storage: map[common.Hash][]byte{}, worlds: map[uint64]*evmsim.World{}, ethHdr: map[uint64]*gethtypes.Header{}, nextIn: 1}
	s.contract, s.twin = raddr(t, typ+"_contract"), raddr(t, typ+"_twin")
	if s.twin == s.contract {
		s.twin[0] ^= 1
	}
	s.nonce = rapid.SampledFrom([]uint64{1, 1, 2, 127, 128, 300}).Draw(t, typ+"_nonce")
	s.balance = big.NewInt(int64(rapid.IntRange(0, 1_000_000).Draw(t, typ+"_balance")))
	s.codeHash = rhash(t, typ+"_code")
	s.oriToken = "0x" + common.Bytes2Hex(rb(t, typ+"_oriToken", 20))
	s.relAddr = "0x" + common.Bytes2Hex(rb(t, typ+"_relAddr", 20))
	seen := map[common.Address]bool{s.contract: true, s.twin: true}
	for i := rapid.IntRange(3, 30).Draw(t, typ+"_accounts"); i > 0; i-- {
		a := raddr(t, typ+"_acct")
		if seen[a] {
			continue
		}
		seen[a] = true
		s.extras = append(s.extras, &evmsim.Account{Addr: a, Nonce: uint64(i), Balance: big.NewInt(int64(i) * 977), CodeHash: evmsim.EmptyCode, Storage: map[common.Hash][]byte{}})
	}
	for i := rapid.IntRange(0, 24).Draw(t, typ+"_filler"); i > 0; i-- {
		s.storage[rhash(t, typ+"_fslot")] = evmsim.WordLeaf(rhash(t, typ+"_fword"))
	}
	// packets already committed when the client is created
	for i := rapid.IntRange(2, 4).Draw(t, typ+"_genesisPackets"); i > 0; i-- {
		c.commitIn(t, s)
	}
	now := uint64(ch.Now.Unix())
	switch typ {
	case exported.ETH:
		gl := rapid.Uint64Range(5_000_000, 60_000_000).Draw(t, "eth_gas")
		num := rapid.Uint64Range(1, 300).Draw(t, "eth_number")
		if rapid.IntRange(0, 5).Draw(t, "eth_highNumber") == 0 {
			num = rapid.Uint64Range(1000, 1<<40).Draw(t, "eth_number_high")
		}
		g := ethsim.Genesis(ethsim.GenesisOpts{Number: num, Time: now - 3000, GasLimit: gl, GasUsed: gl / uint64(rapid.IntRange(1, 4).Draw(t, "eth_usedDiv")),
			BaseFee: rapid.Uint64Range(7, 1<<34).Draw(t, "eth_basefee"), Root: s.world().Root(), Extra: rb(t, "eth_extra", 8)})
		s.delay = uint64(rapid.SampledFrom([]int{0, 1, 1, 2, 2, 3}).Draw(t, "eth_blockDelay"))
		cs := &ethtypes.ClientState{Header: *ethsim.ToProto(g), ChainId: 4, ContractAddress: s.contract.Bytes(), TrustingPeriod: 1 << 40,
			TimeDelay: uint64(rapid.IntRange(0, 2).Draw(t, "eth_timeDelay")), BlockDelay: s.delay}
		kit.Must(cs.Validate(), "eth client state")
		kit.Must(ch.App.XIBCKeeper.ClientKeeper.CreateClient(ch.Ctx(), name, cs, ethsim.ConsensusState(g)), "create ETH client")
		s.first = num
		s.ethHdr[num] = g
		s.stamp(num)
	case exported.BSC:
		n := rapid.IntRange(1, 5).Draw(t, "bsc_validators")
		kseed := rb(t, "bsc_keys", 8)
		var addrs []common.Address
		byAddr := map[common.Address]bscsim.Key{}
		for i := 0; i < n; i++ {
			k := bscsim.KeyFromSeed(kseed, i)
			addrs = append(addrs, k.Addr)
			byAddr[k.Addr] = k
		}
		s.bscVals = bscsim.Sorted(addrs)
		for _, a := range s.bscVals {
			s.bscKeys = append(s.bscKeys, byAddr[a])
		}
		s.delay = uint64(n/2 + 1)
		s.bscEpoch = uint64(rapid.IntRange(n/2+1, 9).Draw(t, "bsc_epoch"))
		s.bscChainID = rapid.SampledFrom([]uint64{56, 97, 714}).Draw(t, "bsc_chainID")
		num := s.bscEpoch * rapid.Uint64Range(1, 40).Draw(t, "bsc_epochs")
		gas := rapid.Uint64Range(1_000_000, 100_000_000).Draw(t, "bsc_gas")
		gh := &bscsim.Header{ParentHash: rhash(t, "bsc_gparent"), UncleHash: bscsim.EmptyUncleHash, Root: s.world().Root(), TxHash: rhash(t, "bsc_tx"),
			ReceiptHash: rhash(t, "bsc_rc"), Number: num, GasLimit: gas, GasUsed: gas / 3, Time: now - 3000}
		s.bscFill(t, gh)
		var vb [][]byte
		for _, a := range s.bscVals {
			vb = append(vb, a.Bytes())
		}
		cs := &bsctypes.ClientState{Header: *gh.ToProto(), ChainId: s.bscChainID, Epoch: s.bscEpoch, BlockInteval: 3, Validators: vb,
			ContractAddress: s.contract.Bytes(), TrustingPeriod: 1 << 40}
		kit.Must(cs.Validate(), "bsc client state")
		cons := &bsctypes.ConsensusState{Timestamp: gh.Time, Height: cs.Header.Height, Root: gh.Root.Bytes()}
		kit.Must(ch.App.XIBCKeeper.ClientKeeper.CreateClient(ch.Ctx(), name, cs, cons), "create BSC client")
		s.bscHead = gh
		s.first = num
		s.stamp(num)
	}
	return s
}

// bscFill completes and seals a header: in-turn sealer of a constant validator list, validator bytes on epoch blocks.
func (s *evmSide) bscFill(t *rapid.T, h *bscsim.Header) {
	k := s.bscKeys[h.Number%uint64(len(s.bscKeys))]
	h.Coinbase = k.Addr
	h.Difficulty = new(big.Int).Set(bscsim.DiffInTurn)
	var vanity [32]byte
	copy(vanity[:], rb(t, "bsc_vanity", 32))
	var mid []byte
	if h.Number%s.bscEpoch == 0 {
		mid = bscsim.AddrBytes(s.bscVals)
	}
	h.Extra = bscsim.BuildExtra(vanity, mid)
	bscsim.Seal(h, k, s.bscChainID)
}

// ---- actions of the simulated chains and of the kit chain --------------------------------------

// commitIn: the simulated chain sends a packet to the kit chain (its contract stores the commitment).
func (c *evmCtl) commitIn(t *rapid.T, s *evmSide) {
	seq := s.nextIn
	s.nextIn++
	kind := rapid.SampledFrom([]string{"transfer", "transfer", "transfer", "transfer+call", "call", "call-revert", "call-garbage", "transfer-unbound", "transfer-back"}).Draw(t, "inKind")
	var tdBz, cdBz []byte
	amt := rapid.Int64Range(1, 500).Draw(t, "inAmount")
	recv := []kit.Account{c.recvr, c.user}[rapid.IntRange(0, 1).Draw(t, "inReceiver")]
	if strings.HasPrefix(kind, "transfer") {
		td := packettypes.TransferData{Token: s.oriToken, OriToken: "", Amount: common.LeftPadBytes(big.NewInt(amt).Bytes(), 32), Receiver: lowerHex(recv.Addr)}
		switch kind {
		case "transfer-unbound":
			td.Token = "0x" + common.Bytes2Hex(rb(t, "inUnbound", 20))
		case "transfer-back":
			td.Token, td.OriToken = lowerHex(common.Address{}), lowerHex(common.Address{})
		}
		var err error
		tdBz, err = td.ABIPack()
		kit.Must(err, "pack transfer data")
	}
	switch kind {
	case "transfer+call", "call":
		d, err := evmERC20.Pack("approve", c.user.Addr, big.NewInt(5))
		kit.Must(err, "pack approve")
		cdBz, err = (&packettypes.CallData{ContractAddress: lowerHex(c.target), CallData: d}).ABIPack()
		kit.Must(err, "pack call data")
	case "call-revert":
		d, err := evmERC20.Pack("transfer", c.user.Addr, big.NewInt(5))
		kit.Must(err, "pack transfer")
		cdBz, err = (&packettypes.CallData{ContractAddress: lowerHex(c.target), CallData: d}).ABIPack()
		kit.Must(err, "pack call data")
	case "call-garbage":
		cdBz = rb(t, "inGarbage", rapid.IntRange(1, 40).Draw(t, "inGarbageLen"))
	}
	cb := ""
	if rapid.IntRange(0, 3).Draw(t, "inCallback") == 0 {
		cb = lowerHex(c.user.Addr)
	}
	p := packettypes.Packet{SrcChain: s.name, DstChain: evmKitID, Sequence: seq, Sender: "0x" + common.Bytes2Hex(rb(t, "inSender", 20)),
		TransferData: nzb(tdBz), CallData: nzb(cdBz), CallbackAddress: cb, FeeOption: uint64(rapid.IntRange(0, 1).Draw(t, "inFeeOption"))}
	bz, err := p.ABIPack()
	kit.Must(err, "pack packet")
	sum := sha256.Sum256(bz)
	s.put(evmSlot(false, s.name, evmKitID, seq), sum[:])
	if rapid.Bool().Draw(t, "inDecoy") { // the same value under the acknowledgement path of the same triple
		s.put(evmSlot(true, s.name, evmKitID, seq), sum[:])
	}
	s.in = append(s.in, &evmIn{seq: seq, bz: bz, desc: kind})
	c.log("commitIn", fmt.Sprintf("%s#%d %s", s.name, seq, kind), "")
}

func nzb(b []byte) []byte {
	if b == nil {
		return []byte{}
	}
	return b
}

// sendOut: a user of the kit chain sends a packet to the simulated chain (a client exists, so the send is possible).
func (c *evmCtl) sendOut(t *rapid.T, s *evmSide) {
	ch := c.c
	kinds := []string{"native", "native", "native+call", "call"}
	bal := ch.ERC20Balance(s.token, c.user.Addr)
	if bal.Sign() > 0 {
		kinds = append(kinds, "bound-back", "bound-back")
	}
	kind := rapid.SampledFrom(kinds).Draw(t, "outKind")
	ccd := packettypes.CrossChainData{DstChain: s.name, TokenAddress: common.Address{}, Receiver: "0x" + common.Bytes2Hex(rb(t, "outReceiver", 20)),
		Amount: big.NewInt(rapid.Int64Range(1, 500).Draw(t, "outAmount")), ContractAddress: "", CallData: []byte{}}
	switch kind {
	case "bound-back":
		ccd.TokenAddress = s.token
		max := int64(500)
		if bal.IsInt64() && bal.Int64() < max {
			max = bal.Int64()
		}
		ccd.Amount = big.NewInt(rapid.Int64Range(1, max).Draw(t, "outBoundAmount"))
	case "native+call":
		ccd.ContractAddress, ccd.CallData = "0x"+common.Bytes2Hex(rb(t, "outContract", 20)), rb(t, "outCallData", rapid.IntRange(1, 40).Draw(t, "outCallLen"))
	case "call":
		ccd.Amount, ccd.Receiver = big.NewInt(0), ""
		ccd.ContractAddress, ccd.CallData = "0x"+common.Bytes2Hex(rb(t, "outContract", 20)), rb(t, "outCallData", rapid.IntRange(1, 40).Draw(t, "outCallLen"))
	}
	if rapid.IntRange(0, 9).Draw(t, "outCallback") == 0 {
		// an externally owned account as callback: the packet contract's acknowledgement processing reverts on it,
		// so even the genuine acknowledgement of such a packet is refused (the property allows a refusal)
		ccd.CallbackAddress = c.user.Addr
		kind += "+eoa-callback"
	}
	fee := packettypes.Fee{TokenAddress: common.Address{}, Amount: big.NewInt(rapid.Int64Range(0, 3).Draw(t, "outFee"))}
	res := ch.CrossChainCall(c.user, ccd, fee)
	if !res.Succeeded() {
		c.r.Label("send_" + s.typ + "_failed")
		c.log("sendOut", fmt.Sprintf("%s %s", s.name, kind), "failed: "+bridge.Short(res.Log+res.VmError))
		return
	}
	n := 0
	for _, bz := range kit.SentPackets(res.TxResult) {
		p := kit.DecodePacket(bz)
		if p.SrcChain != evmKitID || p.DstChain != s.name {
			kit.Failf("unexpected packet %s>%s sent", p.SrcChain, p.DstChain)
		}
		s.out = append(s.out, &evmOut{seq: p.Sequence, bz: bz, desc: kind})
		n++
	}
	if n != 1 {
		kit.Failf("a successful crossChainCall emitted %d packets", n)
	}
	c.r.Label("send_" + s.typ + "_ok")
	c.log("sendOut", fmt.Sprintf("%s %s", s.name, kind), "ok")
}

// decideAck: the simulated chain "received" an out-packet and stores the hash of the acknowledgement it answers with.
func (c *evmCtl) decideAck(t *rapid.T, s *evmSide, o *evmOut) {
	p := kit.DecodePacket(o.bz)
	code := uint64(rapid.SampledFrom([]int{0, 0, 0, 1, 2, 3}).Draw(t, "ackCode"))
	ack := packettypes.Acknowledgement{Code: code, Result: []byte{}, Message: "", Relayer: s.relAddr, FeeOption: p.FeeOption}
	if code == 0 {
		ack.Result = rb(t, "ackResult", rapid.IntRange(0, 40).Draw(t, "ackResultLen"))
	} else {
		ack.Message = rapid.SampledFrom([]string{"failed", "onRecvPackt: binding is not exist", "execute failed"}).Draw(t, "ackMessage")
	}
	bz, err := ack.ABIPack()
	kit.Must(err, "pack ack")
	o.ackBz = bz
	sum := sha256.Sum256(bz)
	s.put(evmSlot(true, evmKitID, s.name, o.seq), sum[:])
	if rapid.Bool().Draw(t, "ackDecoy") { // the same value under the commitment path of the same triple
		s.put(evmSlot(false, evmKitID, s.name, o.seq), sum[:])
	}
	c.log("decideAck", fmt.Sprintf("%s#%d code=%d", s.name, o.seq, code), "")
}

func (c *evmCtl) deliverUpdate(s *evmSide, h exported.Header, what string) {
	msg, err := clienttypes.NewMsgUpdateClient(s.name, h, c.rel.Acc)
	kit.Must(err, "NewMsgUpdateClient")
	if res := c.c.Deliver(c.rel, msg); !res.OK() {
		kit.Failf("valid %s header (%s) rejected: %s", s.typ, what, bridge.Short(res.Log))
	}
}

// advance delivers the next valid header of s, carrying the root of the current world.
func (c *evmCtl) advance(t *rapid.T, s *evmSide) {
	root := s.world().Root()
	switch s.typ {
	case exported.ETH:
		parent := s.ethHdr[s.head]
		c.ethTimeRoom(parent)
		nh := ethsim.Child(parent, ethsim.ChildOpts{DT: uint64(rapid.IntRange(1, 3).Draw(t, "eth_dt")), GasLimitDelta: int64(rapid.IntRange(-2000, 2000).Draw(t, "eth_glDelta")),
			GasUsedPermil: uint64(rapid.IntRange(0, 1000).Draw(t, "eth_used")), Root: root, Extra: rb(t, "eth_extra", 8), Coinbase: raddr(t, "eth_coinbase"), Difficulty: 2})
		c.deliverUpdate(s, ethsim.ToProto(nh), fmt.Sprintf("child at %d", nh.Number.Uint64()))
		s.ethHdr[nh.Number.Uint64()] = nh
		s.stamp(nh.Number.Uint64())
	case exported.BSC:
		p := s.bscHead
		nh := &bscsim.Header{ParentHash: p.Hash(), UncleHash: bscsim.EmptyUncleHash, Root: root, TxHash: rhash(t, "bsc_tx"), ReceiptHash: rhash(t, "bsc_rc"),
			Number: p.Number + 1, GasLimit: p.GasLimit, GasUsed: p.GasLimit / 2, Time: p.Time + 3}
		s.bscFill(t, nh)
		c.deliverUpdate(s, nh.ToProto(), fmt.Sprintf("block %d", nh.Number))
		s.bscHead = nh
		s.stamp(nh.Number)
	}
	c.log("advance", fmt.Sprintf("%s -> %d", s.name, s.head), "")
}

func (c *evmCtl) ethTimeRoom(parent *gethtypes.Header) {
	if parent.Time+16 > uint64(c.c.Now.Unix()) {
		c.c.Commit(time.Minute)
	}
}

// ethFork delivers a sibling of an ancestor of the head: the head moves down, the abandoned branch's consensus
// states above it stay in the store.
func (c *evmCtl) ethFork(t *rapid.T) {
	s := c.sides[0]
	if s.head-s.first < 2 {
		t.Skip("chain too short to fork")
	}
	maxDepth := s.head - s.first
	if maxDepth > 3 {
		maxDepth = 3
	}
	depth := rapid.Uint64Range(2, maxDepth+1).Draw(t, "forkDepth") - 1 // 1..maxDepth: the sibling replaces height head-depth+1
	parent := s.ethHdr[s.head-depth]
	c.ethTimeRoom(parent)
	nh := ethsim.Child(parent, ethsim.ChildOpts{DT: uint64(rapid.IntRange(1, 3).Draw(t, "eth_dt")), GasLimitDelta: int64(rapid.IntRange(-2000, 2000).Draw(t, "eth_glDelta")),
		GasUsedPermil: uint64(rapid.IntRange(0, 1000).Draw(t, "eth_used")), Root: s.world().Root(), Extra: rb(t, "eth_forkExtra", 8), Coinbase: raddr(t, "eth_coinbase"), Difficulty: 2})
	if nh.Hash() == s.ethHdr[nh.Number.Uint64()].Hash() {
		t.Skip("sibling equals the main-chain header")
	}
	c.deliverUpdate(s, ethsim.ToProto(nh), fmt.Sprintf("sibling at %d (head was %d)", nh.Number.Uint64(), s.head))
	s.ethHdr[nh.Number.Uint64()] = nh
	s.stamp(nh.Number.Uint64())
	c.r.Label("eth_fork_head_lowered")
	c.log("ethFork", fmt.Sprintf("new head %d, stale consensus states up to %d", s.head, s.maxSeen), "")
}

// ---- reference ---------------------------------------------------------------------------------

type evmRef struct {
	V      c08.Verdict
	Reason string
}

func (r evmRef) String() string { return r.V.String() + "(" + r.Reason + ")" }

func refInvalid(format string, a ...interface{}) evmRef {
	return evmRef{c08.Invalid, fmt.Sprintf(format, a...)}
}

func evmRefBasic(p bridge.RefPacket) error {
	switch {
	case p.SrcChain == "" || p.DstChain == "":
		return fmt.Errorf("empty chain name")
	case p.SrcChain == p.DstChain:
		return fmt.Errorf("src = dst")
	case p.Sequence == 0:
		return fmt.Errorf("sequence 0")
	case len(p.TransferData) == 0 && len(p.CallData) == 0:
		return fmt.Errorf("no data")
	case p.SrcChain != evmKitID && p.DstChain != evmKitID:
		return fmt.Errorf("neither from nor to this chain")
	}
	return nil
}

// refProof: does proof prove, at a consensus state the client of `client` stored at height h and that is old enough,
// that the configured contract holds value in the slot of (ack?, src, dst, seq)?
func (c *evmCtl) refProof(client string, h clienttypes.Height, proof []byte, ack bool, src, dst string, seq uint64, value [32]byte) evmRef {
	ch := c.c
	ck := ch.App.XIBCKeeper.ClientKeeper
	cs, ok := ck.GetClientState(ch.Ctx(), client)
	if !ok {
		return refInvalid("no-client-for-source")
	}
	var contract []byte
	var head clienttypes.Height
	var delay uint64
	switch x := cs.(type) {
	case *ethtypes.ClientState:
		contract, head, delay = x.ContractAddress, x.Header.Height, x.BlockDelay
	case *bsctypes.ClientState:
		contract, head, delay = x.ContractAddress, x.Header.Height, uint64(len(x.Validators)/2+1)
	default:
		return refInvalid("not-an-evm-client")
	}
	cons, ok := ck.GetClientConsensusState(ch.Ctx(), client, h)
	if !ok {
		return refInvalid("no-consensus-state-at-height")
	}
	if h.RevisionNumber != head.RevisionNumber {
		return evmRef{c08.Indeterminate, "cross-revision"}
	}
	if h.RevisionHeight > head.RevisionHeight {
		return refInvalid("consensus-state-above-head")
	}
	if head.RevisionHeight-h.RevisionHeight < delay {
		return refInvalid("confirmation-blocks-missing")
	}
	var root [32]byte
	if len(cons.GetRoot()) != 32 {
		kit.Failf("stored root of %d bytes", len(cons.GetRoot()))
	}
	copy(root[:], cons.GetRoot())
	res, _ := c08.RefVerify(proof, root, contract, c08.RefSlot(ack, src, dst, seq), value)
	return evmRef{res.V, "proof:" + res.Reason}
}

func (c *evmCtl) refRecv(msg *packettypes.MsgRecvPacket) evmRef {
	p, canon, err := bridge.RefDecodePacket(msg.Packet)
	if err != nil {
		return refInvalid("packet-undecodable")
	}
	if err := evmRefBasic(p); err != nil {
		return refInvalid("basic:%v", err)
	}
	return c.refProof(p.SrcChain, msg.ProofHeight, msg.ProofCommitment, false, p.SrcChain, p.DstChain, p.Sequence, sha256.Sum256(canon))
}

func (c *evmCtl) refAck(msg *packettypes.MsgAcknowledgement) evmRef {
	p, canon, err := bridge.RefDecodePacket(msg.Packet)
	if err != nil {
		return refInvalid("packet-undecodable")
	}
	if err := evmRefBasic(p); err != nil {
		return refInvalid("basic:%v", err)
	}
	sum := sha256.Sum256(canon)
	stored := c.c.App.XIBCKeeper.PacketKeeper.GetPacketCommitment(c.c.Ctx(), p.SrcChain, p.DstChain, p.Sequence)
	if !bytes.Equal(stored, sum[:]) {
		return refInvalid("commitment-not-held")
	}
	if len(msg.Acknowledgement) == 0 {
		return refInvalid("empty-ack")
	}
	return c.refProof(p.DstChain, msg.ProofHeight, msg.ProofAcked, true, p.SrcChain, p.DstChain, p.Sequence, sha256.Sum256(msg.Acknowledgement))
}

// ---- alterations -------------------------------------------------------------------------------

var evmPktAlts = []string{"pkt.src", "pkt.dst", "pkt.seq", "pkt.sender", "pkt.transfer", "pkt.calldata", "pkt.callback", "pkt.feeoption", "pkt.swap", "pkt.reencode", "pkt.truncate"}
var evmAckAlts = []string{"ack.code", "ack.result", "ack.message", "ack.relayer", "ack.feeoption", "ack.swap", "ack.empty"}
var evmHeightAlts = []string{"height.other", "height.recent", "height.belowfirst", "height.above", "height.revision", "height.zero"}
var evmProofAlts = []string{"proof.otherslot", "proof.otherslot_nodes", "proof.keyonly", "proof.acct_twin", "proof.acct_other_nodes", "proof.acct_field",
	"proof.forged_storage", "proof.forged_storage", "proof.valuefield", "proof.leafvalue", "proof.node_drop", "proof.node_dup", "proof.node_flip",
	"proof.zero_storage", "proof.two_storage", "proof.exclusion", "proof.otherpath", "proof.regen", "proof.at_head", "proof.addr_text", "proof.empty", "proof.garbage"}

func phaseOf(a string) int {
	switch {
	case strings.HasPrefix(a, "pkt."):
		return 0
	case strings.HasPrefix(a, "ack."):
		return 1
	case strings.HasPrefix(a, "height."):
		return 2
	}
	return 3
}

func (c *evmCtl) mutatePacket(t *rapid.T, bz []byte, kind string, others [][]byte) []byte {
	var p packettypes.Packet
	if err := p.ABIDecode(bz); err != nil {
		return bz // already made undecodable by an earlier alteration
	}
	outsider := lowerHex(c.outsider.Addr)
	switch kind {
	case "pkt.src":
		p.SrcChain = rapid.SampledFrom(without([]string{ethName, bscName, evmKitID, "other-chain"}, p.SrcChain)).Draw(t, "src")
	case "pkt.dst":
		p.DstChain = rapid.SampledFrom(without([]string{ethName, bscName, evmKitID, "other-chain"}, p.DstChain)).Draw(t, "dst")
	case "pkt.seq":
		p.Sequence = uint64(int64(p.Sequence) + rapid.SampledFrom([]int64{-1, 1, 1, 2, 1 << 32}).Draw(t, "dseq"))
	case "pkt.sender":
		p.Sender = outsider
	case "pkt.transfer":
		var td packettypes.TransferData
		if err := td.ABIDecode(p.TransferData); err == nil {
			switch rapid.IntRange(0, 3).Draw(t, "tdfield") {
			case 0:
				td.Receiver = outsider
			case 1:
				amt := append([]byte{}, td.Amount...)
				if len(amt) < 2 {
					amt = make([]byte, 32)
				}
				amt[len(amt)-2] ^= 0x01 // + or - 256
				td.Amount = amt
			case 2:
				td.Token = outsider
			default:
				td.OriToken = outsider
			}
			nb, err := td.ABIPack()
			kit.Must(err, "pack transfer data")
			p.TransferData = nb
		} else {
			p.TransferData = append(append([]byte{}, p.TransferData...), 1)
		}
	case "pkt.calldata":
		p.CallData = append(append([]byte{}, p.CallData...), 0xfe)
	case "pkt.callback":
		p.CallbackAddress = outsider
	case "pkt.feeoption":
		p.FeeOption++
	case "pkt.swap":
		if len(others) > 0 {
			return others[rapid.IntRange(0, len(others)-1).Draw(t, "other")]
		}
		return bz
	case "pkt.reencode":
		if alt := bridge.Reencode(bz, rapid.IntRange(0, 2).Draw(t, "enc")); alt != nil {
			return alt
		}
		return bz
	case "pkt.truncate":
		return bz[:rapid.IntRange(0, len(bz)-1).Draw(t, "cut")]
	}
	out, err := p.ABIPack()
	kit.Must(err, "pack altered packet")
	return out
}

func without(list []string, x string) []string {
	var out []string
	for _, s := range list {
		if s != x {
			out = append(out, s)
		}
	}
	return out
}

func mutateAck(t *rapid.T, bz []byte, kind string, outsider string, otherAcks [][]byte) []byte {
	switch kind {
	case "ack.swap":
		if len(otherAcks) > 0 {
			return otherAcks[rapid.IntRange(0, len(otherAcks)-1).Draw(t, "otherAck")]
		}
		return bz
	case "ack.empty":
		return []byte{}
	}
	var ack packettypes.Acknowledgement
	if err := ack.ABIDecode(bz); err != nil {
		return bz
	}
	switch kind {
	case "ack.code":
		if ack.Code == 0 {
			ack.Code = uint64(rapid.IntRange(1, 3).Draw(t, "code"))
		} else {
			ack.Code = 0
		}
	case "ack.result":
		ack.Result = append(append([]byte{}, ack.Result...), 7)
	case "ack.message":
		ack.Message += "!"
	case "ack.relayer":
		ack.Relayer = outsider
	case "ack.feeoption":
		ack.FeeOption++
	}
	nb, err := ack.ABIPack()
	kit.Must(err, "pack ack")
	return nb
}

// evmMsg is the message under construction.
type evmMsg struct {
	ack      bool
	s        *evmSide // the simulated chain whose world the genuine proof comes from
	packet   []byte
	ackBz    []byte
	height   clienttypes.Height
	pf       *evmsim.Proof
	raw      []byte // overrides pf when non-nil (or when rawSet)
	rawSet   bool
	baseH    uint64
	otherPk  [][]byte
	otherAck [][]byte
}

// claim returns what the message, as it stands, asks the client to verify (generator side; falls back to the
// genuine triple when the packet no longer decodes).
func (m *evmMsg) claim(orig packettypes.Packet) (slot common.Hash, value common.Hash) {
	p := orig
	var q packettypes.Packet
	if err := q.ABIDecode(m.packet); err == nil {
		p = q
	}
	canon, err := p.ABIPack()
	kit.Must(err, "pack claim packet")
	if m.ack {
		return evmSlot(true, p.SrcChain, p.DstChain, p.Sequence), sha256.Sum256(m.ackBz)
	}
	return evmSlot(false, p.SrcChain, p.DstChain, p.Sequence), sha256.Sum256(canon)
}

func (m *evmMsg) worldAtHeight() *evmsim.World {
	if m.height.RevisionNumber == 0 {
		if w, ok := m.s.worlds[m.height.RevisionHeight]; ok {
			return w
		}
	}
	return m.s.worlds[m.baseH]
}

func hexBytes(s string) []byte { return common.FromHex(s) }

func (c *evmCtl) alterHeight(t *rapid.T, m *evmMsg, kind string, orig packettypes.Packet) string {
	s := m.s
	switch kind {
	case "height.other":
		hs := s.storedHeights()
		m.height = clienttypes.NewHeight(0, hs[rapid.IntRange(0, len(hs)-1).Draw(t, "otherHeight")])
	case "height.recent":
		if s.delay == 0 {
			m.height = clienttypes.NewHeight(0, s.head)
		} else {
			lo := s.first
			if s.head+1 > s.delay && s.head+1-s.delay > lo {
				lo = s.head + 1 - s.delay
			}
			m.height = clienttypes.NewHeight(0, rapid.Uint64Range(lo, s.head).Draw(t, "recentHeight"))
		}
	case "height.belowfirst":
		d := rapid.Uint64Range(1, 3).Draw(t, "below")
		if d > s.first {
			d = s.first
		}
		m.height = clienttypes.NewHeight(0, s.first-d)
	case "height.above":
		hi := s.head + 3
		if s.maxSeen > s.head && rapid.IntRange(0, 3).Draw(t, "staleAbove") != 0 {
			hi = s.maxSeen // consensus states of an abandoned ETH branch are still stored there
		}
		m.height = clienttypes.NewHeight(0, rapid.Uint64Range(s.head+1, hi).Draw(t, "aboveHeight"))
	case "height.revision":
		m.height = clienttypes.NewHeight(uint64(rapid.IntRange(1, 4).Draw(t, "revision")), m.height.RevisionHeight)
	case "height.zero":
		m.height = clienttypes.NewHeight(0, 0)
		return kind
	}
	if w, ok := s.worlds[m.height.RevisionHeight]; ok && m.height.RevisionNumber == 0 && rapid.Bool().Draw(t, "reprove") {
		slot, _ := m.claim(orig)
		m.pf, m.raw, m.rawSet = w.Prove(s.contract, slot), nil, false
		return kind + "+reproved"
	}
	return kind
}

func (c *evmCtl) alterProof(t *rapid.T, m *evmMsg, kind string, orig packettypes.Packet) string {
	s := m.s
	w := m.worldAtHeight()
	slot, value := m.claim(orig)
	pf := m.pf
	if kind != "proof.empty" && kind != "proof.garbage" {
		m.raw, m.rawSet = nil, false
	}
	var sp *evmsim.StorageResult
	if len(pf.StorageProof) > 0 {
		sp = pf.StorageProof[0]
	}
	// another slot present in the contract's storage at that height
	otherSlot := func() (common.Hash, bool) {
		a := w.Account(s.contract)
		var ks []common.Hash
		for k := range a.Storage {
			if k != slot {
				ks = append(ks, k)
			}
		}
		if len(ks) == 0 {
			return common.Hash{}, false
		}
		sort.Slice(ks, func(i, j int) bool { return bytes.Compare(ks[i][:], ks[j][:]) < 0 })
		return ks[rapid.IntRange(0, len(ks)-1).Draw(t, "otherSlot")], true
	}
	nodeList := func() (*[]string, string) {
		if sp != nil && rapid.Bool().Draw(t, "storageNodes") {
			return &sp.Proof, "sto"
		}
		return &pf.AccountProof, "acct"
	}
	switch kind {
	case "proof.otherslot":
		if o, ok := otherSlot(); ok {
			pf.StorageProof = w.Prove(s.contract, o).StorageProof
		}
	case "proof.otherslot_nodes":
		if o, ok := otherSlot(); ok && sp != nil {
			sp.Proof = w.Prove(s.contract, o).StorageProof[0].Proof
		}
	case "proof.keyonly":
		if o, ok := otherSlot(); ok && sp != nil {
			sp.Key = evmsim.Hex(o[:])
		}
	case "proof.acct_twin":
		key := slot
		if sp != nil {
			key = common.BytesToHash(hexBytes(sp.Key))
		}
		m.pf = w.Prove(s.twin, key)
	case "proof.acct_other_nodes":
		who := s.twin
		if len(s.extras) > 0 && rapid.Bool().Draw(t, "extraAccount") {
			who = s.extras[rapid.IntRange(0, len(s.extras)-1).Draw(t, "extra")].Addr
		}
		pf.AccountProof = w.Prove(who).AccountProof
	case "proof.acct_field":
		switch rapid.IntRange(0, 3).Draw(t, "field") {
		case 0:
			pf.Nonce = evmsim.Quantity(new(big.Int).Add(new(big.Int).SetBytes(hexBytes(pf.Nonce)), big.NewInt(1)))
		case 1:
			pf.Balance = evmsim.Quantity(new(big.Int).Add(new(big.Int).SetBytes(hexBytes(pf.Balance)), big.NewInt(1)))
		case 2:
			b := hexBytes(pf.CodeHash)
			if len(b) > 0 {
				b[rapid.IntRange(0, len(b)-1).Draw(t, "chByte")] ^= 1 << rapid.IntRange(0, 7).Draw(t, "chBit")
			}
			pf.CodeHash = evmsim.Hex(b)
		default:
			b := hexBytes(pf.StorageHash)
			if len(b) > 0 {
				b[rapid.IntRange(0, len(b)-1).Draw(t, "shByte")] ^= 1 << rapid.IntRange(0, 7).Draw(t, "shBit")
			}
			pf.StorageHash = evmsim.Hex(b)
		}
	case "proof.forged_storage":
		// a storage trie built by the relayer that holds the wanted value at the wanted slot; the genuine account
		// proof and account fields stay, storage_hash and storage_proof are replaced together
		forged := map[common.Hash][]byte{}
		if rapid.Bool().Draw(t, "forgedKeepsGenuineSlots") {
			for k, v := range w.Account(s.contract).Storage {
				forged[k] = v
			}
		}
		forged[slot] = evmsim.WordLeaf(value)
		forged[rhash(t, "forgedMarkerSlot")] = evmsim.WordLeaf(rhash(t, "forgedMarkerWord"))
		fw := evmsim.NewWorld([]*evmsim.Account{{Addr: s.contract, Nonce: s.nonce, Balance: s.balance, CodeHash: s.codeHash, Storage: forged}})
		fp := fw.Prove(s.contract, slot)
		pf.StorageHash, pf.StorageProof = fp.StorageHash, fp.StorageProof
	case "proof.valuefield":
		if sp != nil {
			switch rapid.IntRange(0, 2).Draw(t, "valueText") {
			case 0:
				sp.Value = evmsim.Hex(rb(t, "valueBytes", 32))
			case 1:
				sp.Value += "00"
			default:
				if len(sp.Value) > 3 {
					sp.Value = sp.Value[:len(sp.Value)-1]
				}
			}
		}
	case "proof.leafvalue":
		if sp != nil && len(sp.Proof) > 0 {
			b := hexBytes(sp.Proof[len(sp.Proof)-1])
			if len(b) > 0 {
				switch rapid.IntRange(0, 2).Draw(t, "leafOp") {
				case 0:
					b[len(b)-1] ^= 1 << rapid.IntRange(0, 7).Draw(t, "leafBit")
				case 1:
					b = append(b, 0)
				default:
					b = b[:len(b)-1]
				}
			}
			sp.Proof[len(sp.Proof)-1] = evmsim.Hex(b)
		}
	case "proof.node_drop", "proof.node_dup", "proof.node_flip":
		l, which := nodeList()
		n := len(*l)
		if n == 0 {
			return kind + ":noop"
		}
		i := rapid.IntRange(0, n-1).Draw(t, "node")
		cp := append([]string{}, (*l)...)
		switch kind {
		case "proof.node_drop":
			cp = append(cp[:i], cp[i+1:]...)
		case "proof.node_dup":
			cp = append(cp[:i], append([]string{cp[i]}, cp[i:]...)...)
		default:
			b := hexBytes(cp[i])
			if len(b) > 0 {
				pos := rapid.IntRange(0, len(b)*8-1).Draw(t, "bit")
				b[pos/8] ^= 1 << (pos % 8)
			}
			cp[i] = evmsim.Hex(b)
		}
		*l = cp
		return kind + ":" + which
	case "proof.zero_storage":
		pf.StorageProof = []*evmsim.StorageResult{}
	case "proof.two_storage":
		if sp != nil {
			second := sp
			if o, ok := otherSlot(); ok && rapid.Bool().Draw(t, "secondIsOther") {
				second = w.Prove(s.contract, o).StorageProof[0]
			}
			if rapid.Bool().Draw(t, "genuineFirst") {
				pf.StorageProof = []*evmsim.StorageResult{sp, second}
			} else {
				pf.StorageProof = []*evmsim.StorageResult{second, sp}
			}
		}
	case "proof.exclusion":
		// a slot that the world at that height does not hold: the claimed one if absent, else one far away
		abs := slot
		if _, present := w.Account(s.contract).Storage[abs]; present {
			abs = rhash(t, "absentSlot")
		}
		m.pf = w.Prove(s.contract, abs)
	case "proof.otherpath":
		// the proof of the other kind of path: same triple if the world holds it, else any slot of the other kind
		p := orig
		var q packettypes.Packet
		if err := q.ABIDecode(m.packet); err == nil {
			p = q
		}
		o := evmSlot(!m.ack, p.SrcChain, p.DstChain, p.Sequence)
		if _, present := w.Account(s.contract).Storage[o]; !present {
			var cands []common.Hash
			if m.ack {
				for _, in := range s.in {
					cands = append(cands, evmSlot(false, s.name, evmKitID, in.seq))
				}
			} else {
				for _, out := range s.out {
					if out.ackBz != nil {
						cands = append(cands, evmSlot(true, evmKitID, s.name, out.seq))
					}
				}
			}
			if len(cands) > 0 {
				o = cands[rapid.IntRange(0, len(cands)-1).Draw(t, "otherPathSlot")]
			}
		}
		m.pf = w.Prove(s.contract, o)
	case "proof.regen":
		m.pf = w.Prove(s.contract, slot)
	case "proof.at_head":
		m.pf = s.worlds[s.head].Prove(s.contract, slot)
	case "proof.addr_text":
		a := strings.TrimPrefix(pf.Address, "0x")
		switch rapid.IntRange(0, 2).Draw(t, "addrText") {
		case 0:
			pf.Address = "0x" + strings.ToUpper(a)
		case 1:
			pf.Address = a
		default:
			pf.Address = "0X" + a
		}
	case "proof.empty":
		m.raw, m.rawSet = []byte{}, true
		return kind
	case "proof.garbage":
		js, err := json.Marshal(m.pf)
		kit.Must(err, "marshal proof")
		switch rapid.IntRange(0, 3).Draw(t, "garbage") {
		case 0:
			m.raw = js[:rapid.IntRange(1, len(js)-1).Draw(t, "cut")]
		case 1:
			m.raw = []byte("{}")
		case 2:
			m.raw = []byte("null")
		default:
			m.raw = append([]byte("["), append(js, ']')...)
		}
		m.rawSet = true
		return kind
	}
	return kind
}

func (m *evmMsg) proofBytes() []byte {
	if m.rawSet {
		return m.raw
	}
	js, err := json.Marshal(m.pf)
	kit.Must(err, "marshal proof")
	return js
}

// pickUniform draws one element with equal probability (rapid's SampledFrom / IntRange favour small indices).
func pickUniform(t *rapid.T, table []string, label string) string {
	return rapid.Custom(func(t *rapid.T) string {
		idx := make([]int, len(table))
		for i := range idx {
			idx[i] = i
		}
		return table[rapid.Permutation(idx).Draw(t, "perm")[0]]
	}).Draw(t, label)
}

// drawAlterations draws 0-3 alterations and orders them packet -> ack -> height -> proof, so that proof
// alterations that depend on the message (forged trie, regenerated proof, exclusion) see the final claim.
func drawAlterations(t *rapid.T, catalogue []string) []string {
	k := rapid.SampledFrom([]int{0, 0, 0, 1, 1, 1, 1, 2, 2, 3}).Draw(t, "k")
	var as []string
	for i := 0; i < k; i++ {
		as = append(as, pickUniform(t, catalogue, "alteration"))
	}
	sort.SliceStable(as, func(i, j int) bool { return phaseOf(as[i]) < phaseOf(as[j]) })
	return as
}

// baseHeight picks the proof height of the unaltered message: mostly one that satisfies the confirmation delay.
func (c *evmCtl) baseHeight(t *rapid.T, s *evmSide, since uint64) uint64 {
	if s.head >= s.delay && s.head-s.delay >= since && rapid.IntRange(0, 7).Draw(t, "anyHeight") != 0 {
		return rapid.Uint64Range(since, s.head-s.delay).Draw(t, "height")
	}
	return rapid.Uint64Range(since, s.head).Draw(t, "heightAny")
}

func (c *evmCtl) signer(t *rapid.T) (kit.Account, bool) {
	if rapid.IntRange(0, 7).Draw(t, "unregisteredSigner") == 0 {
		return c.outsider, false
	}
	return c.rel, true
}

type evmOutcome struct {
	res           kit.TxResult
	before, after kit.Dump
}

func (o evmOutcome) unchanged() bool { return len(kit.Diff(o.before, o.after)) == 0 }
func (o evmOutcome) diff() string    { return kit.DiffString(kit.Diff(o.before, o.after), 12) }

func (c *evmCtl) deliverDumped(acct kit.Account, msg sdk.Msg) evmOutcome {
	o := evmOutcome{before: c.c.DumpStores(c.c.Ctx(), evmDumpStores...)}
	o.res = c.c.Deliver(acct, msg)
	o.after = c.c.DumpStores(c.c.Ctx(), evmDumpStores...)
	return o
}

// record labels one delivered message and registers its class.
func (c *evmCtl) record(kind, client string, applied []string, ref evmRef, accepted, registered, replay bool) {
	set := append([]string{}, applied...)
	sort.Strings(set)
	verdict := ref.V.String()
	for _, a := range applied {
		c.r.Label(fmt.Sprintf("%s_%s_%s_%s", kind, client, a, verdict))
	}
	outcome := "rejected"
	if accepted {
		outcome = "accepted"
	}
	if len(applied) == 0 {
		extra := ""
		if replay {
			extra = "_replay"
		}
		if !registered {
			extra += "_unregistered"
		}
		c.r.Label(fmt.Sprintf("%s_%s_unaltered_%s%s_%s", kind, client, verdict, extra, outcome))
	} else {
		c.nt = true
		c.cases[fmt.Sprintf("%s|%s|%v|%s", kind, client, set, verdict)] = true
		c.r.Label(fmt.Sprintf("%s_%s_altered_%s_%s", kind, client, verdict, outcome))
	}
	c.r.Label("ref_" + ref.Reason)
}

func rejectionLog(r kit.TxResult) string {
	if r.OK() {
		return ""
	}
	return bridge.Short(r.Log)
}

func (c *evmCtl) recvAltered(t *rapid.T) {
	s := c.sides[rapid.IntRange(0, 1).Draw(t, "side")]
	var fresh, all []*evmIn
	for _, p := range s.in {
		if p.at != 0 && p.at <= s.head {
			all = append(all, p)
			if !c.accepted[tripleKey(s.name, evmKitID, p.seq)] {
				fresh = append(fresh, p)
			}
		}
	}
	if len(all) == 0 {
		t.Skip("nothing committed at a stored height")
	}
	pool := all
	if len(fresh) > 0 && rapid.IntRange(0, 4).Draw(t, "alsoReceived") != 0 {
		pool = fresh
	} else if len(fresh) == 0 && rapid.IntRange(0, 2).Draw(t, "replayOnly") != 0 {
		t.Skip("every committed packet was received already")
	}
	p := pool[rapid.IntRange(0, len(pool)-1).Draw(t, "pkt")]
	orig := kit.DecodePacket(p.bz)
	h := c.baseHeight(t, s, p.at)
	signer, registered := c.signer(t)
	m := &evmMsg{s: s, packet: p.bz, height: clienttypes.NewHeight(0, h), baseH: h,
		pf: s.worlds[h].Prove(s.contract, evmSlot(false, s.name, evmKitID, p.seq))}
	for _, side := range c.sides {
		for _, q := range side.in {
			if q != p && q.at != 0 {
				m.otherPk = append(m.otherPk, q.bz)
			}
		}
	}
	catalogue := append(append(append([]string{}, evmPktAlts...), evmHeightAlts...), evmProofAlts...)
	var applied []string
	for _, a := range drawAlterations(t, catalogue) {
		switch phaseOf(a) {
		case 0:
			m.packet = c.mutatePacket(t, m.packet, a, m.otherPk)
		case 2:
			a = c.alterHeight(t, m, a, orig)
		case 3:
			a = c.alterProof(t, m, a, orig)
		}
		applied = append(applied, a)
	}
	msg := packettypes.NewMsgRecvPacket(m.packet, m.proofBytes(), m.height, signer.Acc)
	ref := c.refRecv(msg)
	rp, _, derr := bridge.RefDecodePacket(msg.Packet)
	replay := derr == nil && c.accepted[tripleKey(rp.SrcChain, rp.DstChain, rp.Sequence)]
	o := c.deliverDumped(signer, msg)
	c.r.Step()
	ok := o.res.OK()
	c.record("recv", s.typ, applied, ref, ok, registered, replay)
	c.log("recv", fmt.Sprintf("%s#%d h=%s %v signer=%v", s.name, p.seq, m.height, applied, map[bool]string{true: "relayer", false: "outsider"}[registered]),
		fmt.Sprintf("ref=%s ok=%v %s", ref, ok, rejectionLog(o.res)))
	if ok {
		if derr != nil {
			c.failf("receive of undecodable packet bytes accepted")
		}
		c.accepted[tripleKey(rp.SrcChain, rp.DstChain, rp.Sequence)] = true
		c.nAccepted++
	}
	switch ref.V {
	case c08.Invalid:
		if ok {
			c.failf("%s receive accepted although the reference rejects it (%s); alterations %v", s.typ, ref.Reason, applied)
		}
		if !o.unchanged() {
			c.failf("rejected %s receive (alterations %v; reference: %s) changed state:\n%s", s.typ, applied, ref.Reason, o.diff())
		}
	case c08.Valid:
		switch {
		case replay:
			if ok {
				c.failf("%s receive of an already received triple accepted (alterations %v)", s.typ, applied)
			}
		case registered && !ok:
			c.failf("%s receive rejected although the reference accepts it (alterations %v, height %s, head %d, delay %d): %s", s.typ, applied, m.height, s.head, s.delay, bridge.Short(o.res.Log))
		}
		if !ok && !o.unchanged() {
			c.failf("refused %s receive changed state:\n%s", s.typ, o.diff())
		}
	default:
		c.r.Label("no_verdict_asserted")
	}
}

func (c *evmCtl) ackAltered(t *rapid.T) {
	s := c.sides[rapid.IntRange(0, 1).Draw(t, "side")]
	var fresh, all []*evmOut
	for _, p := range s.out {
		if p.ackBz != nil && p.ackAt != 0 && p.ackAt <= s.head {
			all = append(all, p)
			if !p.acked && !p.refused {
				fresh = append(fresh, p)
			}
		}
	}
	if len(all) == 0 {
		t.Skip("no acknowledgement stored at a stored height")
	}
	pool := all
	if len(fresh) > 0 && rapid.IntRange(0, 4).Draw(t, "alsoAcked") != 0 {
		pool = fresh
	} else if len(fresh) == 0 && rapid.IntRange(0, 3).Draw(t, "ackedOnly") != 0 {
		t.Skip("every stored acknowledgement was processed already")
	}
	p := pool[rapid.IntRange(0, len(pool)-1).Draw(t, "pkt")]
	orig := kit.DecodePacket(p.bz)
	h := c.baseHeight(t, s, p.ackAt)
	signer, registered := c.signer(t)
	m := &evmMsg{ack: true, s: s, packet: p.bz, ackBz: p.ackBz, height: clienttypes.NewHeight(0, h), baseH: h,
		pf: s.worlds[h].Prove(s.contract, evmSlot(true, evmKitID, s.name, p.seq))}
	for _, side := range c.sides {
		for _, q := range side.out {
			if q != p {
				m.otherPk = append(m.otherPk, q.bz)
				if q.ackBz != nil {
					m.otherAck = append(m.otherAck, q.ackBz)
				}
			}
		}
	}
	catalogue := append(append(append(append([]string{}, evmPktAlts...), evmAckAlts...), evmHeightAlts...), evmProofAlts...)
	var applied []string
	for _, a := range drawAlterations(t, catalogue) {
		switch phaseOf(a) {
		case 0:
			m.packet = c.mutatePacket(t, m.packet, a, m.otherPk)
		case 1:
			m.ackBz = mutateAck(t, m.ackBz, a, lowerHex(c.outsider.Addr), m.otherAck)
		case 2:
			a = c.alterHeight(t, m, a, orig)
		case 3:
			a = c.alterProof(t, m, a, orig)
		}
		applied = append(applied, a)
	}
	msg := packettypes.NewMsgAcknowledgement(m.packet, m.ackBz, m.proofBytes(), m.height, signer.Acc)
	ref := c.refAck(msg)
	rp, _, derr := bridge.RefDecodePacket(msg.Packet)
	o := c.deliverDumped(signer, msg)
	c.r.Step()
	ok := o.res.OK()
	c.record("ack", s.typ, applied, ref, ok, registered, p.acked)
	c.log("ack", fmt.Sprintf("%s#%d h=%s %v", s.name, p.seq, m.height, applied), fmt.Sprintf("ref=%s ok=%v %s", ref, ok, rejectionLog(o.res)))
	if ok {
		if derr != nil {
			c.failf("acknowledgement with undecodable packet bytes accepted")
		}
		c.nAccepted++
		if q := c.side(rp.DstChain); q != nil && rp.SrcChain == evmKitID {
			for _, x := range q.out {
				if x.seq == rp.Sequence {
					x.acked = true
				}
			}
		}
	}
	if ref.V == c08.Invalid {
		if ok {
			c.failf("%s acknowledgement accepted although the reference rejects it (%s); alterations %v", s.typ, ref.Reason, applied)
		}
		if !o.unchanged() {
			c.failf("rejected %s acknowledgement (alterations %v; reference: %s) changed state:\n%s", s.typ, applied, ref.Reason, o.diff())
		}
		return
	}
	if ref.V == c08.Indeterminate {
		c.r.Label("no_verdict_asserted")
		return
	}
	// reference-valid: the property only says "accepted only if"; a refusal must change nothing
	if !ok {
		// classes observed so far: the packet contract's OnAcknowledgePacket reverts for packets whose callback is an
		// externally owned account and for error acknowledgements of packets that carry call data
		cls := "other"
		var ak packettypes.Acknowledgement
		switch {
		case strings.Contains(p.desc, "eoa-callback"):
			cls = "packet-with-eoa-callback"
		case ak.ABIDecode(msg.Acknowledgement) == nil && ak.Code != 0 && strings.Contains(p.desc, "call"):
			cls = "error-ack-of-packet-with-call-data"
		case !registered:
			cls = "unregistered-signer"
		case ak.Code != 0:
			// e.g. the counterparty released locked coins in a packet of its own and also refused the transfer: the refund exceeds what is locked
			cls = "error-ack-other"
		}
		c.r.Label("ack_valid_refused:" + cls)
		if len(applied) == 0 {
			p.refused = true
		}
	}
	if !ok && !o.unchanged() {
		c.failf("refused %s acknowledgement changed state:\n%s", s.typ, o.diff())
	}
}

func evmRun(t *rapid.T, r *rec.Recorder) {
	c := newEvmCtl(t, r)
	wrap := func(f func(*rapid.T)) func(*rapid.T) {
		return func(t *rapid.T) { c.t = t; f(t) }
	}
	pickSide := func(t *rapid.T) *evmSide { return c.sides[rapid.IntRange(0, 1).Draw(t, "side")] }
	commit := wrap(func(t *rapid.T) { c.commitIn(t, pickSide(t)) })
	adv := wrap(func(t *rapid.T) {
		s := pickSide(t)
		for i := rapid.IntRange(1, int(s.delay)+1).Draw(t, "headers"); i > 0; i-- {
			c.advance(t, s)
		}
	})
	recv, ack := wrap(c.recvAltered), wrap(c.ackAltered)
	sendOut := wrap(func(t *rapid.T) { c.sendOut(t, pickSide(t)) })
	decide := wrap(func(t *rapid.T) {
		s := pickSide(t)
		var open []*evmOut
		for _, o := range s.out {
			if o.ackBz == nil {
				open = append(open, o)
			}
		}
		if len(open) == 0 {
			t.Skip("no packet without acknowledgement")
		}
		c.decideAck(t, s, open[rapid.IntRange(0, len(open)-1).Draw(t, "pkt")])
	})
	t.Repeat(map[string]func(*rapid.T){
		"commitIn":   commit,
		"commitIn2":  commit,
		"sendOut":    sendOut,
		"sendOut2":   sendOut,
		"decideAck":  decide,
		"decideAck2": decide,
		"advance":    adv,
		"advance2":   adv,
		"ethFork":    wrap(c.ethFork),
		"tick":       wrap(func(t *rapid.T) { c.c.Commit(5 * time.Second); c.log("tick", "", "") }),
		"recv":       recv,
		"recv2":      recv,
		"recv3":      recv,
		"recv4":      recv,
		"ack":        ack,
		"ack2":       ack,
		"ack3":       ack,
		"":           func(t *rapid.T) { c.t = t },
	})
	var ks []string
	for k := range c.cases {
		ks = append(ks, k)
	}
	sort.Strings(ks)
	for _, k := range ks {
		r.Case(k, true, nil)
	}
	r.Case(fmt.Sprintf("history classes=%d", len(ks)), c.nt, func() interface{} {
		h := c.hist
		if len(h) > 80 {
			h = h[len(h)-80:]
		}
		return h
	})
}

func TestC02_EvmCounterparty(t *testing.T) {
	r := rec.For("TestC02_EvmCounterparty", evmRule)
	rapid.Check(t, func(t *rapid.T) { evmRun(t, r) })
}
