// C17 — system-contract staking/governance acts for the caller only, atomically.
package c17

import (
	"fmt"
	"math/big"
	"sort"
	"strings"
	"testing"
	"time"

	sdk "github.com/cosmos/cosmos-sdk/types"
	"github.com/cosmos/cosmos-sdk/types/bech32"
	authtypes "github.com/cosmos/cosmos-sdk/x/auth/types"
	distrtypes "github.com/cosmos/cosmos-sdk/x/distribution/types"
	"github.com/cosmos/cosmos-sdk/x/gov"
	govtypes "github.com/cosmos/cosmos-sdk/x/gov/types"
	stakingtypes "github.com/cosmos/cosmos-sdk/x/staking/types"

	"github.com/ethereum/go-ethereum/common"
	"pgregory.net/rapid"

	"verif/harness/kit"
	"verif/harness/rec"
)

func TestMain(m *testing.M) { rec.Main(m) }

const ruleActions = "histories of Ethereum txs (DeliverTx) from EOAs, Proxy, Proxy>Proxy, DelegateProxy, DelegateProxy>Proxy-code, Proxy>DelegateProxy, " +
	"baked Script contracts (several calls / look-alike LOGs / reverting sub-frames per tx, re-invoked, run as init code) to Staking and Gov with drawn " +
	"validators, amounts, proposals, options; interleaved with blocks, rewards, slashing, proposals. Oracle: native Msgs of the DIRECT caller on a branch. " +
	"non-trivial = history with >=1 successful and >=1 failing native action through a nested (contract) caller; distinct by set of (method, caller shape, outcome)"

const ruleBurn = "same machine weighted to slashing (current and past infraction heights, with unbonding/redelegation entries created through the contracts) and " +
	"proposals ending by expired deposit, missing quorum, veto or pass; non-trivial = >=1 step that burned a positive amount; distinct by multiset of burn kinds"

func pick(t *rapid.T, label string, weighted ...interface{}) string {
	var pool []string
	for i := 0; i < len(weighted); i += 2 {
		for k := 0; k < weighted[i+1].(int); k++ {
			pool = append(pool, weighted[i].(string))
		}
	}
	return rapid.SampledFrom(pool).Draw(t, label)
}

var two256m1 = new(big.Int).Sub(new(big.Int).Lsh(big.NewInt(1), 256), big.NewInt(1))

// genAmount draws an amount relative to base (the caller's balance or delegated tokens).
func genAmount(t *rapid.T, base sdk.Int) (*big.Int, string) {
	b := base.BigInt()
	switch k := pick(t, "amountClass", "small", 4, "half", 4, "all", 3, "all+1", 2, "zero", 1, "one", 1, "2^63", 1, "2^64+small", 1, "2^255", 1, "2^256-1", 1); k {
	case "zero":
		return big.NewInt(0), k
	case "one":
		return big.NewInt(1), k
	case "small":
		return big.NewInt(rapid.Int64Range(2, 1_000_000).Draw(t, "amt")), k
	case "half":
		return new(big.Int).Rsh(b, 1), k
	case "all":
		return b, k
	case "all+1":
		return new(big.Int).Add(b, big.NewInt(1)), k
	case "2^63":
		return new(big.Int).Lsh(big.NewInt(1), 63), k
	case "2^64+small":
		// equals a small affordable amount after truncation to 64 bits
		return new(big.Int).Add(new(big.Int).Lsh(big.NewInt(1), 64), big.NewInt(rapid.Int64Range(1, 1000).Draw(t, "low"))), k
	case "2^255":
		return new(big.Int).Lsh(big.NewInt(1), 255), k
	default:
		return new(big.Int).Set(two256m1), k
	}
}

func (w *world) badValidator(t *rapid.T, who common.Address) (string, string) {
	good := rapid.SampledFrom(w.vals).Draw(t, "val")
	switch k := pick(t, "badVal", "unknown", 3, "empty", 1, "garbage", 1, "account-bech32", 1, "bad-checksum", 1, "uppercase", 1, "trailing-space", 1, "long", 1, "invalid-utf8", 1, "wrong-hrp", 1); k {
	case "unknown":
		raw := rapid.SliceOfN(rapid.Byte(), 20, 20).Draw(t, "valBytes")
		return sdk.ValAddress(raw).String(), k
	case "empty":
		return "", k
	case "garbage":
		return rapid.StringN(1, 40, -1).Draw(t, "garbage"), k
	case "account-bech32":
		return sdk.AccAddress(who.Bytes()).String(), k
	case "bad-checksum":
		c := good[len(good)-1]
		r := byte('q')
		if c == 'q' {
			r = 'p'
		}
		return good[:len(good)-1] + string(r), k
	case "uppercase":
		return strings.ToUpper(good), k
	case "trailing-space":
		return good + " ", k
	case "long":
		return good + strings.Repeat("q", rapid.IntRange(1, 300).Draw(t, "pad")), k
	case "invalid-utf8":
		return "\xff\xfe" + good, k
	default:
		_, bz, _ := bech32.DecodeAndConvert(good)
		s, _ := bech32.ConvertAndEncode("cosmosvaloper", bz)
		return s, k
	}
}

// genValidator: mostly a validator the caller can meaningfully use.
func (w *world) genValidator(t *rapid.T, who common.Address, preferDelegated bool) (string, string) {
	if pick(t, "valClass", "good", 5, "bad", 1) == "bad" {
		return w.badValidator(t, who)
	}
	if preferDelegated {
		if dv := w.delegatedVals(who); len(dv) > 0 && rapid.IntRange(0, 4).Draw(t, "useDelegated") > 0 {
			return rapid.SampledFrom(dv).Draw(t, "dval"), "delegated"
		}
	}
	return rapid.SampledFrom(w.vals).Draw(t, "val"), "valid"
}

func (w *world) genProposal(t *rapid.T) (uint64, string) {
	ps := w.proposals()
	byClass := map[string][]uint64{}
	var maxID uint64
	for _, p := range ps {
		c := "finished"
		switch p.Status {
		case govtypes.StatusVotingPeriod:
			c = "active"
		case govtypes.StatusDepositPeriod:
			c = "inactive"
		}
		byClass[c] = append(byClass[c], p.ID)
		if p.ID > maxID {
			maxID = p.ID
		}
	}
	k := pick(t, "propClass", "active", 7, "inactive", 1, "finished", 1, "absent", 1, "zero", 1, "max", 1)
	if ids := byClass[k]; len(ids) > 0 {
		return rapid.SampledFrom(ids).Draw(t, "pid"), k
	}
	switch k {
	case "zero":
		return 0, k
	case "max":
		return ^uint64(0), k
	}
	return maxID + 1 + uint64(rapid.IntRange(0, 3).Draw(t, "beyond")), "absent"
}

func genOption(t *rapid.T) (uint32, string) {
	switch k := pick(t, "optClass", "valid", 8, "zero", 1, "five", 1, "2^31", 1, "2^31+1", 1, "max", 1); k {
	case "valid":
		return uint32(rapid.IntRange(1, 4).Draw(t, "opt")), k
	case "zero":
		return 0, k
	case "five":
		return 5, k
	case "2^31":
		return 1 << 31, k
	case "2^31+1":
		return 1<<31 + 1, k // wraps to a negative enum; 2^32-4+… would wrap to small negatives
	default:
		return ^uint32(0), k
	}
}

func genWeighted(t *rapid.T) ([]OW, string) {
	switch k := pick(t, "wClass", "single100", 3, "split", 4, "sum<100", 1, "sum>100", 1, "duplicate", 1, "zero-weight", 1, "empty", 1, "huge", 1, "wrap-to-100", 1, "bad-option", 1); k {
	case "single100":
		return []OW{{uint32(rapid.IntRange(1, 4).Draw(t, "opt")), 100}}, k
	case "split":
		perm := rapid.Permutation([]uint32{1, 2, 3, 4}).Draw(t, "perm")
		n := rapid.IntRange(2, 4).Draw(t, "n")
		left := uint64(100)
		var out []OW
		for i := 0; i < n; i++ {
			wgt := left
			if i < n-1 {
				wgt = uint64(rapid.IntRange(1, int(left)-(n-1-i)).Draw(t, "w"))
			}
			left -= wgt
			out = append(out, OW{perm[i], wgt})
		}
		return out, k
	case "sum<100":
		return []OW{{1, 50}, {2, 49}}, k
	case "sum>100":
		return []OW{{1, 60}, {3, 60}}, k
	case "duplicate":
		return []OW{{1, 50}, {1, 50}}, k
	case "zero-weight":
		return []OW{{1, 100}, {2, 0}}, k
	case "empty":
		return nil, k
	case "huge":
		return []OW{{1, rapid.Uint64Range(1<<62, ^uint64(0)).Draw(t, "hugeW")}}, k
	case "wrap-to-100":
		// as int64 these sum to exactly 100 percent: 150 + (-50)
		return []OW{{1, 150}, {2, ^uint64(0) - 49}}, k
	default:
		return []OW{{uint32(rapid.SampledFrom([]uint32{0, 5, 1 << 31, ^uint32(0)}).Draw(t, "badOpt")), 100}}, k
	}
}

// genAction draws a request that `signer` (the direct caller of the system contract) would make.
func (w *world) genAction(t *rapid.T, sys string, signer common.Address) *action {
	acc := sdk.AccAddress(signer.Bytes())
	if sys == "gov" {
		pid, pc := w.genProposal(t)
		if rapid.Bool().Draw(t, "weighted") {
			ows, wc := genWeighted(t)
			return &action{Sys: "gov", Method: "voteWeighted", Proposal: pid, Weighted: ows, Class: "proposal=" + pc + " weights=" + wc}
		}
		o, oc := genOption(t)
		return &action{Sys: "gov", Method: "vote", Proposal: pid, Option: o, Class: "proposal=" + pc + " option=" + oc}
	}
	hasDel := len(w.delegatedVals(signer)) > 0
	var m string
	if hasDel {
		m = pick(t, "method", "delegate", 3, "undelegate", 3, "redelegate", 3, "withdraw", 2)
	} else {
		m = pick(t, "method", "delegate", 7, "undelegate", 1, "redelegate", 1, "withdraw", 1)
	}
	a := &action{Sys: "staking", Method: m}
	switch m {
	case "delegate":
		v, vc := w.genValidator(t, signer, false)
		amt, ac := genAmount(t, w.bal(w.ctx(), acc))
		a.Val, a.Amount, a.Class = v, amt, "val="+vc+" amount="+ac
	case "undelegate":
		v, vc := w.genValidator(t, signer, true)
		amt, ac := genAmount(t, w.delegatedTokens(signer, v))
		a.Val, a.Amount, a.Class = v, amt, "val="+vc+" amount="+ac
	case "redelegate":
		v, vc := w.genValidator(t, signer, true)
		var v2, v2c string
		switch pick(t, "dstClass", "other", 6, "same", 1, "bad", 1) {
		case "other":
			var others []string
			for _, x := range w.vals {
				if x != v {
					others = append(others, x)
				}
			}
			v2, v2c = rapid.SampledFrom(others).Draw(t, "dst"), "other"
		case "same":
			v2, v2c = v, "same"
		default:
			v2, v2c = w.badValidator(t, signer)
		}
		amt, ac := genAmount(t, w.delegatedTokens(signer, v))
		a.Val, a.Val2, a.Amount, a.Class = v, v2, amt, "src="+vc+" dst="+v2c+" amount="+ac
	case "withdraw":
		v, vc := w.genValidator(t, signer, true)
		a.Val, a.Class = v, "val="+vc
	}
	return a
}

// directCaller tells which address the system contract will see as msg.sender when `from` calls
// route (a wrapper chain or the system contract itself) from a frame running at ctxSelf.
func directCaller(route *node, ctxSelf common.Address, sys string) common.Address {
	ok, evs := exec(route, route.Addr, ctxSelf, payload{Act: &action{Sys: sys}}, "")
	if ok {
		if eff := nativeEffects(evs); len(eff) > 0 {
			return eff[0].Sender
		}
	}
	return ctxSelf // no native effect expected on this route: any plausible arguments will do
}

func (w *world) genRoute(t *rapid.T, sys string) *node {
	switch pick(t, "route", "direct", 4, "proxy", 3, "proxy>proxy", 2, "dproxy", 1, "dproxy>proxycode", 2, "proxy>dproxy", 1, "clone", 1) {
	case "direct":
		return w.sys[sys]
	case "proxy":
		return w.routes[sys][0]
	case "proxy>proxy":
		return w.routes[sys][1]
	case "dproxy":
		return w.routes[sys][2]
	case "dproxy>proxycode":
		return w.routes[sys][3]
	case "clone":
		return w.routes[sys][5]
	default:
		return w.routes[sys][4]
	}
}

func (w *world) genSys(t *rapid.T) string {
	return pick(t, "sys", "staking", 3, "gov", 2)
}

func (w *world) victims() []common.Address {
	out := []common.Address{w.eoas[0].Addr, w.eoas[1].Addr, w.eoas[2].Addr}
	return append(out, w.funded...)
}

func malformed(t *rapid.T, sys string) ([]byte, string) {
	switch k := pick(t, "malformed", "short", 1, "unknown-selector", 1, "other-contract-method", 1, "truncated-args", 1, "dirty-high-bits", 1); k {
	case "dirty-high-bits":
		// a uint64 / offset word with bits above the type's width: the ABI decoder of the compiled contracts rejects it
		var bz []byte
		if sys == "gov" {
			bz = (&action{Method: "vote", Proposal: 1, Option: 1}).calldata()
			bz[4+32-9] = 1 // bit 64 of proposalID
		} else {
			bz = (&action{Method: "withdraw", Val: "x"}).calldata()
			bz[4+32-9] = 1 // string offset >= 2^64
		}
		return bz, k
	case "short":
		return rapid.SliceOfN(rapid.Byte(), 0, 3).Draw(t, "short"), k
	case "unknown-selector":
		return append([]byte{0xde, 0xad, 0xbe, 0xef}, make([]byte, 64)...), k
	case "other-contract-method":
		if sys == "gov" {
			return (&action{Method: "withdraw", Val: "x"}).calldata(), k
		}
		return (&action{Method: "vote", Proposal: 1, Option: 1}).calldata(), k
	default:
		if sys == "gov" {
			return (&action{Method: "vote", Proposal: 1, Option: 1}).calldata()[:4+31], k
		}
		return (&action{Method: "withdraw", Val: "x"}).calldata()[:4+31], k
	}
}

// ---- step generators ------------------------------------------------------------------------

func (w *world) stepSimple(t *rapid.T) {
	from := rapid.SampledFrom(w.eoas).Draw(t, "from")
	if w.profile == "burn" && rapid.Bool().Draw(t, "whale") {
		from = w.whale // holds stake everywhere: its un-/redelegations create the entries a later slash hits
	}
	sys := w.genSys(t)
	route := w.genRoute(t, sys)
	signer := directCaller(route, from.Addr, sys)
	in := payload{}
	desc := "eoa>" + route.describe()
	switch pick(t, "payload", "action", 18, "malformed", 1, "value", 1) {
	case "action":
		in.Act = w.genAction(t, sys, signer)
	case "malformed":
		var k string
		in.Raw, k = malformed(t, sys)
		desc += " malformed:" + k
		w.r.Label("malformed calldata " + k)
	default:
		in.Act = w.genAction(t, sys, signer)
		in.Value = true
		desc += " value=1"
		w.r.Label("call with value to non-payable system contract")
	}
	if in.Act != nil {
		desc += " " + in.Act.Method
	}
	w.runTx(txSpec{From: from, Root: route, In: in, Desc: desc})
}

// stepWhaleVote: the account holding ~all stake votes through the Gov contract, so that the tally at
// the end of the voting period (pass / reject / veto => burn) depends on the vote the adapter recorded.
func (w *world) stepWhaleVote(t *rapid.T) {
	var active []uint64
	for _, p := range w.proposals() {
		if p.Status == govtypes.StatusVotingPeriod {
			active = append(active, p.ID)
		}
	}
	if len(active) == 0 {
		w.stepProposal(t)
		return
	}
	pid := rapid.SampledFrom(active).Draw(t, "pid")
	a := &action{Sys: "gov", Proposal: pid}
	switch k := pick(t, "whaleVote", "veto", 3, "yes", 2, "no", 1, "abstain", 1, "weighted", 3); k {
	case "weighted":
		v := uint64(rapid.IntRange(1, 99).Draw(t, "vetoPct"))
		a.Method, a.Weighted, a.Class = "voteWeighted", []OW{{4, v}, {1, 100 - v}}, "proposal=active weights=whale-veto-split"
	default:
		a.Method, a.Class = "vote", "proposal=active option=whale-"+k
		a.Option = map[string]uint32{"yes": 1, "abstain": 2, "no": 3, "veto": 4}[k]
	}
	route := w.sys["gov"]
	w.r.Label("whale votes through the Gov contract")
	w.runTx(txSpec{From: w.whale, Root: route, In: payload{Act: a}, Desc: "eoa(whale)>gov " + a.Method})
}

func (w *world) genLook(t *rapid.T) (*action, common.Address) {
	victim := rapid.SampledFrom(w.victims()).Draw(t, "victim")
	return w.genAction(t, w.genSys(t), victim), victim
}

func (w *world) stepLookalike(t *rapid.T) {
	from := rapid.SampledFrom(w.eoas).Draw(t, "from")
	via := rapid.SampledFrom(w.emitVia).Draw(t, "via")
	look, victim := w.genLook(t)
	w.runTx(txSpec{From: from, Root: via, In: payload{Look: look, Victim: victim}, Desc: "eoa>" + via.describe() + " look-alike " + look.Method})
}

// genScriptOps draws the body of a script that will run with address(this)=self.
func (w *world) genScriptOps(t *rapid.T, self common.Address, depth int) []sop {
	n := rapid.IntRange(1, 3).Draw(t, "nOps")
	var ops []sop
	for i := 0; i < n; i++ {
		kind := pick(t, "opKind", "call-sys", 10, "dcall-sys", 2, "log", 2, "call-emitter", 2, "reverting-sub", 3, "malformed-try", 1, "revert", 1)
		if depth > 0 && kind == "reverting-sub" {
			kind = "call-sys"
		}
		switch kind {
		case "call-sys":
			sys := w.genSys(t)
			route := w.genRoute(t, sys)
			signer := directCaller(route, self, sys)
			ops = append(ops, sop{Kind: "call", Target: route, Try: rapid.IntRange(0, 4).Draw(t, "try") == 0,
				Payload: payload{Act: w.genAction(t, sys, signer)}})
		case "dcall-sys":
			sys := w.genSys(t)
			ops = append(ops, sop{Kind: "dcall", Target: w.sys[sys], Payload: payload{Act: w.genAction(t, sys, self)}})
		case "log":
			look, victim := w.genLook(t)
			ops = append(ops, sop{Kind: "log", Payload: payload{Look: look, Victim: victim}})
		case "call-emitter":
			look, victim := w.genLook(t)
			ops = append(ops, sop{Kind: "call", Target: rapid.SampledFrom(w.emitVia).Draw(t, "via"), Payload: payload{Look: look, Victim: victim}})
		case "reverting-sub":
			// a sub-frame that makes real system-contract calls and then reverts; mostly swallowed by the caller
			subAddr := w.nextCreateAddr(w.subDeployer)
			subOps := w.genScriptOps(t, subAddr, depth+1)
			subOps = append(subOps, sop{Kind: "revert"})
			sub := w.deployFrom(w.subDeployer, &node{Kind: "script", Ops: subOps, Addr: subAddr})
			ops = append(ops, sop{Kind: "call", Target: sub, Try: rapid.IntRange(0, 5).Draw(t, "swallow") > 0})
		case "malformed-try":
			sys := w.genSys(t)
			raw, _ := malformed(t, sys)
			ops = append(ops, sop{Kind: "call", Target: w.sys[sys], Try: true, Payload: payload{Raw: raw}})
		case "revert":
			ops = append(ops, sop{Kind: "revert"})
		}
	}
	return ops
}

func (w *world) stepScript(t *rapid.T) {
	from := rapid.SampledFrom(w.eoas).Draw(t, "from")
	wrap := pick(t, "wrap", "none", 6, "proxy", 2, "dproxy", 2)
	scriptAddr := w.nextCreateAddr(w.deployer)
	self := scriptAddr
	if wrap == "dproxy" {
		self = w.nextCreateAddr(w.wrapDeployer) // the script's code will run in the delegating contract's context
	}
	if rapid.Bool().Draw(t, "fund") {
		w.fund(self, 1_000_000_000)
	}
	ops := w.genScriptOps(t, self, 0)
	root := w.deployNode(&node{Kind: "script", Ops: ops, Addr: scriptAddr})
	switch wrap {
	case "proxy":
		root = w.deployFrom(w.wrapDeployer, &node{Kind: "proxy", Target: root})
	case "dproxy":
		root = w.deployFrom(w.wrapDeployer, &node{Kind: "dproxy", Target: root})
	}
	w.scripts = append(w.scripts, root)
	w.r.Label("script tx wrap=" + wrap)
	w.runTx(txSpec{From: from, Root: root, In: payload{}, Desc: "eoa>" + root.describe()})
}

func (w *world) stepReinvoke(t *rapid.T) {
	if len(w.scripts) == 0 {
		w.stepSimple(t)
		return
	}
	from := rapid.SampledFrom(w.eoas).Draw(t, "from")
	root := rapid.SampledFrom(w.scripts).Draw(t, "script")
	w.r.Label("script re-invoked in a later state")
	w.runTx(txSpec{From: from, Root: root, In: payload{}, Desc: "eoa>(again) " + root.describe()})
}

func (w *world) stepCreate(t *rapid.T) {
	from := rapid.SampledFrom(w.eoas).Draw(t, "from")
	self := w.nextCreateAddr(from)
	if rapid.Bool().Draw(t, "fund") {
		w.fund(self, 1_000_000_000)
	}
	ops := w.genScriptOps(t, self, 0)
	root := &node{Kind: "script", Ops: ops, Addr: self}
	w.r.Label("creation tx: constructor calls the system contracts")
	w.runTx(txSpec{From: from, Root: root, Create: true, In: payload{}, Desc: "eoa creates " + root.describe()})
}

// ---- harness steps: blocks, rewards, slashing, proposals --------------------------------------

func (w *world) stepReward(t *rapid.T) {
	val := rapid.SampledFrom(w.vals).Draw(t, "val")
	amt := rapid.Int64Range(1000, 1_000_000_000).Draw(t, "reward")
	ctx := w.ctx()
	va, _ := sdk.ValAddressFromBech32(val)
	v, ok := w.c.App.StakingKeeper.GetValidator(ctx, va)
	if !ok {
		return
	}
	coins := sdk.NewCoins(sdk.NewInt64Coin(sdk.DefaultBondDenom, amt))
	kit.Must(w.c.App.BankKeeper.SendCoinsFromAccountToModule(ctx, w.treasury.Acc, distrtypes.ModuleName, coins), "reward funding")
	w.c.App.DistrKeeper.AllocateTokensToValidator(ctx, v, sdk.NewDecCoinsFromCoins(coins...))
	w.log("reward", fmt.Sprintf("%d to %s", amt, val[len(val)-6:]), "")
}

func (w *world) stepProposal(t *rapid.T) {
	dep := int64(minDeposit)
	cls := pick(t, "deposit", "enough", 3, "short", 1)
	if cls == "short" {
		dep = rapid.Int64Range(1, minDeposit-1).Draw(t, "dep")
	} else {
		dep += rapid.Int64Range(0, 5000).Draw(t, "extra")
	}
	msg, err := govtypes.NewMsgSubmitProposal(govtypes.NewTextProposal("t", "d"), sdk.NewCoins(sdk.NewInt64Coin(sdk.DefaultBondDenom, dep)), w.proposer.Acc)
	kit.Must(err, "submit msg")
	res := w.c.Deliver(w.proposer, msg)
	if !res.OK() {
		kit.Failf("submit proposal: %s", res.Log)
	}
	w.log("proposal", fmt.Sprintf("deposit=%d (%s)", dep, cls), "")
	w.r.Label("proposal submitted deposit=" + cls)
}

// predictGovBurn is a small reference for what ends at this block's EndBlocker and whether its
// deposits are burned. known=false when the outcome is too close to a threshold to call.
func (w *world) predictGovBurn(ctx sdk.Context) (burn sdk.Int, ended sdk.Int, known bool, kinds []string) {
	app := w.c.App
	now := ctx.BlockTime()
	burn, ended, known = sdk.ZeroInt(), sdk.ZeroInt(), true
	// whale's share of the bonded stake
	bonded := app.StakingKeeper.TotalBondedTokens(ctx)
	whaleBonded := sdk.ZeroInt()
	for _, d := range app.StakingKeeper.GetDelegatorDelegations(ctx, w.whale.Acc, 100) {
		v, ok := app.StakingKeeper.GetValidator(ctx, d.GetValidatorAddr())
		if ok && v.IsBonded() {
			whaleBonded = whaleBonded.Add(v.TokensFromShares(d.Shares).TruncateInt())
		}
	}
	dominant := bonded.IsPositive() && whaleBonded.MulRaw(100).GTE(bonded.MulRaw(98))
	for _, p := range app.GovKeeper.GetProposals(ctx) {
		total := sdk.ZeroInt()
		for _, d := range app.GovKeeper.GetDeposits(ctx, p.ProposalId) {
			total = total.Add(d.Amount.AmountOf(sdk.DefaultBondDenom))
		}
		switch {
		case p.Status == govtypes.StatusDepositPeriod && !p.DepositEndTime.After(now):
			burn, ended = burn.Add(total), ended.Add(total)
			kinds = append(kinds, "deposit-expired")
		case p.Status == govtypes.StatusVotingPeriod && !p.VotingEndTime.After(now):
			ended = ended.Add(total)
			if !dominant {
				known = false
				kinds = append(kinds, "tally-unpredicted")
				continue
			}
			vote, found := app.GovKeeper.GetVote(ctx, p.ProposalId, w.whale.Acc)
			if !found {
				burn = burn.Add(total)
				kinds = append(kinds, "no-quorum")
				continue
			}
			veto := sdk.ZeroDec()
			for _, o := range vote.Options {
				if o.Option == govtypes.OptionNoWithVeto {
					veto = veto.Add(o.Weight)
				}
			}
			switch {
			case veto.GTE(sdk.NewDecWithPrec(40, 2)):
				burn = burn.Add(total)
				kinds = append(kinds, "veto")
			case veto.LTE(sdk.NewDecWithPrec(30, 2)):
				kinds = append(kinds, "refund")
			default:
				known = false
				kinds = append(kinds, "tally-unpredicted")
			}
		}
	}
	return
}

// stepCommit ends the block. What governance's EndBlocker is about to do is first measured on a
// branch (gov.EndBlocker alone, so that the fee collector is not yet swept by the next BeginBlock).
func (w *world) stepCommit(t *rapid.T) {
	dtS := rapid.SampledFrom([]int{1, 10, 30, 51, 61, 101, 130}).Draw(t, "dt")
	c := w.c
	feeAddr := modAddr(authtypes.FeeCollectorName)
	supplyPre := w.supply()

	bctx, _ := w.ctx().CacheContext()
	expBurn, ended, known, kinds := w.predictGovBurn(bctx)
	feePre, govPre := w.bal(bctx, feeAddr), w.bal(bctx, modAddr(govtypes.ModuleName))
	gov.EndBlocker(bctx, c.App.GovKeeper)
	feeDelta := w.bal(bctx, feeAddr).Sub(feePre)
	govDelta := govPre.Sub(w.bal(bctx, modAddr(govtypes.ModuleName)))
	var supplyBranch []string
	c.App.BankKeeper.IterateTotalSupply(bctx, func(co sdk.Coin) bool { supplyBranch = append(supplyBranch, co.String()); return false })
	sort.Strings(supplyBranch)
	if s := strings.Join(supplyBranch, ","); s != supplyPre {
		t.Fatalf("C17: governance EndBlocker changed total supply %s -> %s (ended: %v)\nhistory=%s", supplyPre, s, kinds, w.render())
	}
	if !govDelta.Equal(ended) {
		kit.Failf("gov module released %s, reference expects %s (%v)", govDelta, ended, kinds)
	}
	if known && !feeDelta.Equal(expBurn) {
		t.Fatalf("C17: deposits to be burned=%s but fee collector received %s (ended: %v)\nhistory=%s", expBurn, feeDelta, kinds, w.render())
	}
	if feeDelta.IsNegative() || feeDelta.GT(ended) {
		t.Fatalf("C17: fee collector delta %s outside [0,%s]", feeDelta, ended)
	}
	for _, k := range kinds {
		w.r.Label("gov end: " + k)
	}
	if feeDelta.IsPositive() {
		w.burnSeen++
		w.triples["burn|gov"] = true
		for _, k := range kinds {
			w.triples["burn|gov|"+k] = true
		}
		w.r.Label("burn: governance deposits -> fee collector")
	}

	c.Commit(time.Duration(dtS) * time.Second)
	if s := w.supply(); s != supplyPre {
		t.Fatalf("C17: total supply changed across a block boundary %s -> %s (gov ended: %v)\nhistory=%s", supplyPre, s, kinds, w.render())
	}
	w.log("commit", fmt.Sprintf("dt=%ds gov-ended=%v burned=%s", dtS, kinds, feeDelta), "")
	w.r.Label("block committed")
}

// stepSlash slashes a validator with the call the slashing / evidence modules make.
func (w *world) stepSlash(t *rapid.T) {
	c := w.c
	ctx := w.ctx()
	val := rapid.SampledFrom(w.vals).Draw(t, "val")
	va, _ := sdk.ValAddressFromBech32(val)
	v, ok := c.App.StakingKeeper.GetValidator(ctx, va)
	if !ok || v.IsUnbonded() {
		return // the slashing module never slashes an unbonded validator (staking panics on it by design)
	}
	factor := sdk.NewDecWithPrec(rapid.SampledFrom([]int64{1, 5, 50, 100}).Draw(t, "pct"), 2)
	back := int64(rapid.SampledFrom([]int{0, 0, 1, 2, 5}).Draw(t, "blocksBack"))
	infraction := ctx.BlockHeight() - back
	if infraction < 1 {
		infraction = ctx.BlockHeight()
	}
	cons, err := v.GetConsAddr()
	kit.Must(err, "cons addr")
	power := v.ConsensusPower(sdk.DefaultPowerReduction)
	feeAddr := modAddr(authtypes.FeeCollectorName)
	pools := func() sdk.Int {
		return w.bal(ctx, modAddr(stakingtypes.BondedPoolName)).Add(w.bal(ctx, modAddr(stakingtypes.NotBondedPoolName)))
	}
	supplyPre, feePre, poolsPre, tokensPre := w.supply(), w.bal(ctx, feeAddr), pools(), v.Tokens
	c.App.StakingKeeper.Slash(ctx, cons, infraction, power, factor)
	feeDelta, poolDelta := w.bal(ctx, feeAddr).Sub(feePre), poolsPre.Sub(pools())
	w.log("slash", fmt.Sprintf("%s pct=%s back=%d power=%d", val[len(val)-6:], factor, back, power), "burned="+feeDelta.String())
	if s := w.supply(); s != supplyPre {
		t.Fatalf("C17: slashing changed total supply %s -> %s\nhistory=%s", supplyPre, s, w.render())
	}
	if !feeDelta.Equal(poolDelta) || feeDelta.IsNegative() {
		t.Fatalf("C17: slashing took %s out of the staking pools but the fee collector received %s\nhistory=%s", poolDelta, feeDelta, w.render())
	}
	want := c.App.StakingKeeper.TokensFromConsensusPower(ctx, power).ToDec().Mul(factor).TruncateInt()
	if back == 0 || infraction == ctx.BlockHeight() {
		// nothing but the validator's own tokens can be slashed for an infraction at the current height
		if want.GT(tokensPre) {
			want = tokensPre
		}
		if !feeDelta.Equal(want) {
			t.Fatalf("C17: slash of %s at current height should burn %s, fee collector received %s\nhistory=%s", val, want, feeDelta, w.render())
		}
	}
	// (for a past infraction the SDK slashes unbonding / redelegation entries by factor x their
	// initial balance, independent of the power argument: no upper bound is asserted there)
	kind := "slash-current-height"
	if back > 0 {
		kind = "slash-past-infraction"
		v2, _ := c.App.StakingKeeper.GetValidator(ctx, va)
		if feeDelta.GT(tokensPre.Sub(v2.Tokens)) {
			kind = "slash-past-infraction-hitting-unbonding-or-redelegation"
		}
	}
	w.r.Label("burn: " + kind)
	if feeDelta.IsPositive() {
		w.burnSeen++
		w.triples["burn|"+kind] = true
	}
}

// ---- the machine ------------------------------------------------------------------------------

func (w *world) step(t *rapid.T, profile string) {
	var k string
	if profile == "burn" {
		k = pick(t, "step", "simple", 8, "script", 2, "commit", 6, "slash", 4, "proposal", 3, "reward", 1, "whale-vote", 3)
	} else {
		k = pick(t, "step", "simple", 10, "lookalike", 3, "script", 6, "reinvoke", 1, "create", 2, "commit", 3, "slash", 1, "proposal", 2, "reward", 2, "whale-vote", 1)
	}
	switch k {
	case "whale-vote":
		w.stepWhaleVote(t)
	case "simple":
		w.stepSimple(t)
	case "lookalike":
		w.stepLookalike(t)
	case "script":
		w.stepScript(t)
	case "reinvoke":
		w.stepReinvoke(t)
	case "create":
		w.stepCreate(t)
	case "commit":
		w.stepCommit(t)
	case "slash":
		w.stepSlash(t)
	case "proposal":
		w.stepProposal(t)
	case "reward":
		w.stepReward(t)
	}
}

func runHistory(t *rapid.T, r *rec.Recorder, profile string) {
	w := newWorld(t, r, rapid.IntRange(2, 3).Draw(t, "validators"))
	w.profile = profile
	// a proposal to vote on and some rewards from the start, so that early steps are meaningful
	if rapid.IntRange(0, 3).Draw(t, "initialProposal") > 0 {
		w.stepProposal(t)
	}
	t.Repeat(map[string]func(*rapid.T){
		"step": func(t *rapid.T) { w.t = t; w.step(t, profile) },
	})
	var keys []string
	for k := range w.triples {
		keys = append(keys, k)
	}
	sort.Strings(keys)
	nontrivial := w.nestedOK > 0 && w.nestedFail > 0
	if profile == "burn" {
		nontrivial = w.burnSeen > 0
		var bk []string
		for _, k := range keys {
			if strings.HasPrefix(k, "burn|") {
				bk = append(bk, k)
			}
		}
		keys = append(bk, fmt.Sprint("n=", min(w.burnSeen, 6)))
	}
	if nontrivial {
		r.Label("history non-trivial")
	}
	r.Case(strings.Join(keys, ";"), nontrivial, func() interface{} { return w.hist })
}

func TestC17_CallerOnlyAtomic(t *testing.T) {
	r := rec.For("TestC17_CallerOnlyAtomic", ruleActions)
	rapid.Check(t, func(t *rapid.T) { runHistory(t, r, "actions") })
}

func TestC17_BurnToFeeCollector(t *testing.T) {
	r := rec.For("TestC17_BurnToFeeCollector", ruleBurn)
	rapid.Check(t, func(t *rapid.T) { runHistory(t, r, "burn") })
}

// TestC17_PinnedAttribution is a library-free anchor with absolute (non-differential) assertions, so
// that the differential oracle cannot pass vacuously: who ends up with the delegation / vote.
func TestC17_PinnedAttribution(t *testing.T) {
	r := rec.For("TestC17_PinnedAttribution", "pinned: EOA, proxy, delegatecall-proxy, emitter and double-call script against absolute expectations")
	c := kit.NewChain("teleport_9000-1", kit.ChainOpts{Seed: []byte("c17"), NumValidators: 2, NumAccounts: 8, GenesisMutator: mutateGenesis, BalanceCoins: 1_000_000})
	w := &world{r: r, c: c, triples: map[string]bool{}}
	w.whale, w.proposer, w.deployer, w.treasury = c.Accounts[0], c.Accounts[3], c.Accounts[4], c.Accounts[7]
	eoa := c.Accounts[1]
	val := c.App.StakingKeeper.GetAllValidators(c.Ctx())[0].OperatorAddress
	leaf := &node{Kind: "sys", Sys: "staking", Addr: stakingAddr}
	p := w.deployNode(&node{Kind: "proxy", Target: leaf})
	d := w.deployNode(&node{Kind: "dproxy", Target: leaf})
	e := w.deployNode(&node{Kind: "emitter"})
	w.fund(p.Addr, 1_000_000)
	w.fund(d.Addr, 1_000_000)
	del := func(a common.Address) sdk.Int { return w.delegatedTokens(a, val) }
	act := &action{Sys: "staking", Method: "delegate", Val: val, Amount: big.NewInt(1000)}
	fail := func(format string, a ...interface{}) { t.Helper(); t.Fatalf("C17 pinned: "+format, a...) }

	// 1. direct call: the EOA delegates
	if res := c.DeliverEth(eoa, &leaf.Addr, nil, act.calldata()); !res.Succeeded() || !del(eoa.Addr).Equal(sdk.NewInt(1000)) {
		fail("direct delegate: ok=%v delegated=%s (want 1000)", res.Succeeded(), del(eoa.Addr))
	}
	// 2. through a proxy: the proxy delegates its own coins, the EOA's position is untouched
	balP := w.bal(c.Ctx(), sdk.AccAddress(p.Addr.Bytes()))
	if res := c.DeliverEth(eoa, &p.Addr, nil, act.calldata()); !res.Succeeded() || !del(p.Addr).Equal(sdk.NewInt(1000)) || !del(eoa.Addr).Equal(sdk.NewInt(1000)) ||
		!balP.Sub(w.bal(c.Ctx(), sdk.AccAddress(p.Addr.Bytes()))).Equal(sdk.NewInt(1000)) {
		fail("proxy delegate: ok=%v proxy=%s eoa=%s", res.Succeeded(), del(p.Addr), del(eoa.Addr))
	}
	// 3. DELEGATECALL of the Staking code: event comes from the proxy's address => nothing native happens
	pre := c.DumpStores(c.Ctx(), nativeStores...)
	if res := c.DeliverEth(eoa, &d.Addr, nil, act.calldata()); !res.Succeeded() || len(res.Logs) != 1 || res.Logs[0].Address != d.Addr {
		fail("delegatecall proxy: ok=%v logs=%d", res.Succeeded(), len(res.Logs))
	}
	// 4. byte-identical Delegated event from an emitter naming the (funded) EOA
	t0, data := act.eventLog(eoa.Addr)
	if res := c.DeliverEth(eoa, &e.Addr, nil, append(t0.Bytes(), data...)); !res.Succeeded() || len(res.Logs) != 1 || string(res.Logs[0].Data) != string(data) {
		fail("emitter: ok=%v", res.Succeeded())
	}
	if df := kit.Diff(pre, c.DumpStores(c.Ctx(), nativeStores...)); len(df) > 0 {
		fail("look-alike events had a native effect:\n%s", kit.DiffString(df, 5))
	}
	// 5. two calls in one tx => two delegations; a failing second action undoes the first
	two := w.deployNode(&node{Kind: "script", Ops: []sop{{Kind: "call", Target: leaf, Payload: payload{Act: act}}, {Kind: "call", Target: leaf, Payload: payload{Act: act}}}})
	w.fund(two.Addr, 1500)
	pre = c.DumpStores(c.Ctx(), allStores...)
	if res := c.DeliverEth(eoa, &two.Addr, nil, nil); res.Succeeded() || len(kit.Diff(pre, c.DumpStores(c.Ctx(), allStores...))) > 0 {
		fail("script with 1500 coins delegating 2x1000 must fail and change nothing: ok=%v", res.Succeeded())
	}
	w.fund(two.Addr, 500)
	if res := c.DeliverEth(eoa, &two.Addr, nil, nil); !res.Succeeded() || !del(two.Addr).Equal(sdk.NewInt(2000)) {
		fail("script delegating 2x1000: ok=%v delegated=%s", res.Succeeded(), del(two.Addr))
	}
	// 6. unknown validator: tx fails, nothing changes
	bad := &action{Sys: "staking", Method: "delegate", Val: sdk.ValAddress(make([]byte, 20)).String(), Amount: big.NewInt(5)}
	pre = c.DumpStores(c.Ctx(), allStores...)
	if res := c.DeliverEth(eoa, &p.Addr, nil, bad.calldata()); res.Succeeded() || len(kit.Diff(pre, c.DumpStores(c.Ctx(), allStores...))) > 0 {
		fail("delegate to unknown validator through proxy: ok=%v", res.Succeeded())
	}
	r.Case("pinned-attribution", true, func() interface{} { return "6 absolute scenarios held" })
	r.Case("pinned-attribution-2", true, nil)
}
