package aggsim

import (
	"fmt"
	"math/big"
	"testing"
	"time"

	sdk "github.com/cosmos/cosmos-sdk/types"
)

func TestProbe(t *testing.T) {
	t0 := time.Now()
	w := NewWorld()
	fmt.Println("new world", time.Since(t0))
	t0 = time.Now()
	w = NewWorld()
	fmt.Println("new world 2", time.Since(t0))

	u := w.Users
	// flex token
	ft := w.DeployToken(KindFlex, u[0], "flx", "FLX", 6, 1000)
	ctx := w.C.Ctx()
	fmt.Println("flex bal", w.TokenBalance(ctx, ft, u[1].Addr), w.view(ctx, ft.Addr, "balanceOf", u[1].Addr), "supply", w.TokenSupply(ctx, ft), w.view(ctx, ft.Addr, "totalSupply"))
	d, err := w.App.AggregateKeeper.QueryERC20(ctx, ft.Addr)
	fmt.Println("erc20 data", d, err)
	res := w.EthCall(u[1], ABI, ft.Addr, "transfer", u[2].Addr, big.NewInt(100))
	fmt.Println("transfer", res.Succeeded(), res.VmError, res.Ret)
	w.FlexSetMode(u[0], ft, FlexFee)
	res = w.EthCall(u[1], ABI, ft.Addr, "transfer", u[2].Addr, big.NewInt(101))
	ctx = w.C.Ctx()
	fmt.Println("fee transfer", res.Succeeded(), w.TokenBalance(ctx, ft, u[1].Addr), w.TokenBalance(ctx, ft, u[2].Addr), w.TokenBalance(ctx, ft, FlexSinkAddr), w.FlexMode(ctx, ft))
	res = w.EthCall(u[1], flexABI, ft.Addr, "burn", big.NewInt(99))
	ctx = w.C.Ctx()
	fmt.Println("burn", res.Succeeded(), res.VmError, w.TokenBalance(ctx, ft, u[1].Addr), w.TokenSupply(ctx, ft))
	res = w.EthCall(u[1], flexABI, ft.Addr, "burn", big.NewInt(99999))
	fmt.Println("burn too much", res.Succeeded(), res.VmError)
	w.FlexSetMode(u[0], ft, FlexHonest)

	// register
	err, inv := w.RegisterERC20(ft.Addr)
	fmt.Println("register flex", err, inv)
	m := CoinMetadata("acoin", true, "a coin")
	err, inv = w.RegisterCoin(m)
	fmt.Println("register coin", err, inv)
	m2 := CoinMetadata(CoinDenoms[3], false, "ibc coin")
	err, inv = w.AddCoin(m2, w.Tokens[len(w.Tokens)-1].Addr.Hex())
	fmt.Println("add coin", err, inv)
	reg := w.ReadRegistry(w.C.Ctx())
	fmt.Printf("registry %+v\n", reg.Pairs)
	fmt.Println("check", reg.Check(), w.CheckLookups(w.C.Ctx(), reg))

	t0 = time.Now()
	s0 := w.Snap(w.C.Ctx())
	fmt.Println("snap", time.Since(t0), len(s0.Bank), len(s0.Tok))
	t0 = time.Now()
	dg := w.StateDigest()
	fmt.Println("digest", time.Since(t0), dg[:8])

	t0 = time.Now()
	r := w.ConvertCoin(u[1], u[1].Addr, "acoin", sdk.NewInt(10))
	fmt.Println("convert coin", r.Code, r.Log, time.Since(t0))
	s1 := w.Snap(w.C.Ctx())
	fmt.Println(Diff(s0, s1))
	r = w.ConvertCoin(u[1], u[1].Addr, CoinDenoms[3], sdk.NewInt(7))
	fmt.Println("convert coin ibc", r.Code, r.Log)
	mod := w.Tokens[len(w.Tokens)-1]
	r = w.ConvertERC20(u[1], u[2].Acc, mod.Addr.Hex(), CoinDenoms[3], sdk.NewInt(5))
	fmt.Println("convert erc20 back", r.Code, r.Log)
	r = w.ConvertERC20(u[1], u[2].Acc, ft.Addr.Hex(), "aggregate/"+ft.Addr.Hex(), sdk.NewInt(5))
	fmt.Println("convert flex", r.Code, r.Log)
	s2 := w.Snap(w.C.Ctx())
	fmt.Println(Diff(s1, s2))
	r = w.ConvertERC20(u[1], u[2].Acc, ft.Addr.Hex(), "aggregate/"+ft.Addr.Hex(), sdk.NewInt(50000))
	fmt.Println("convert flex too much", r.Code, r.Log)
	w.FlexSetMode(u[0], ft, FlexBalanceFails)
	r = w.ConvertERC20(u[1], u[2].Acc, ft.Addr.Hex(), "aggregate/"+ft.Addr.Hex(), sdk.NewInt(5))
	fmt.Println("convert flex balanceOf reverts", r.Code, r.Log[:min(len(r.Log), 300)])
	w.FlexSetMode(u[0], ft, FlexHonest)

	// kill then convert
	w.FlexKill(u[0], ft)
	dg0 := w.StateDump()
	r = w.ConvertERC20(u[1], u[2].Acc, ft.Addr.Hex(), "aggregate/"+ft.Addr.Hex(), sdk.NewInt(5))
	fmt.Println("convert dead flex", r.Code, r.Log)
	reg = w.ReadRegistry(w.C.Ctx())
	fmt.Printf("registry %+v\n", reg.Pairs)
	fmt.Println("check", reg.Check())
	_ = dg0
	w.SetModuleEnabled(false)
	r = w.ConvertCoin(u[1], u[1].Addr, "acoin", sdk.NewInt(10))
	fmt.Println("convert coin disabled", r.Code, r.Log)
	w.SetModuleEnabled(true)
	w.SetSendEnabled("acoin", false)
	r = w.ConvertCoin(u[1], u[2].Addr, "acoin", sdk.NewInt(10))
	fmt.Println("convert coin send-disabled", r.Code, r.Log)
	r = w.ConvertCoin(u[1], u[1].Addr, "acoin", sdk.NewInt(10))
	fmt.Println("convert coin send-disabled self", r.Code, r.Log)
	w.C.Commit(5 * time.Second)
	r = w.ConvertCoin(u[1], u[1].Addr, "acoin", sdk.NewInt(10))
	fmt.Println("after commit", r.Code, r.Log)
}
