package c19

// gen_test.go: generators — hostile strings / byte strings / uint64, chain names (G-names), heights
// (G-heights). Every choice is a rapid draw.

import (
	"encoding/binary"
	"strings"
	"unicode/utf8"

	"pgregory.net/rapid"

	clienttypes "github.com/teleport-network/teleport/x/xibc/core/client/types"
	"github.com/teleport-network/teleport/x/xibc/core/host"

	"verif/harness/kit"
)

var hostileRunes = []rune{
	0, 0x2028, 0x2029, '<', '>', '&', '"', '\'', '\\', '/', 0x7f, 0x80, 0x7ff, 0x800, 0xfffd, 0xfeff, 0xd7ff, 0xe000,
	0xffff, 0x10000, 0x1F600, 0x10ffff, '\n', '\r', '\t', '\b', '\f', 0x1b, 0x301, 0x200d, 0xe9, 0x4e2d, 0x1, 0x1f,
}

var literalStrings = []string{
	"null", "true", "false", "0", "-1", "1e3", "18446744073709551615", "18446744073709551616", `{"a":1}`, `[]`, `""`, `"`,
	`\u0000`, `\ud800`, `\`, "AAAA", "AA==", "=", "0x", "0x0000000000000000000000000000000000000000",
	"0xd8da6bf26964af9d7eed9e03e53415d37aa96045", "teleport_9000-1", "src_chain", "fee_option", "feeOption",
	"\u00e9", "e\u0301", "\ufeffbom", "\U0001F600", " ", "\x00", "\u2028", "\xef\xbf\xbd",
}

var boundaryLens = []int{1, 2, 31, 32, 33, 63, 64, 65, 96, 127, 128}

func genRune() *rapid.Generator[rune] {
	return rapid.Custom(func(t *rapid.T) rune {
		switch rapid.IntRange(0, 9).Draw(t, "runeKind") {
		case 0, 1, 2, 3:
			return rapid.SampledFrom(hostileRunes).Draw(t, "hostile")
		case 4, 5, 6:
			return rune(rapid.IntRange(0x20, 0x7e).Draw(t, "ascii"))
		case 7:
			return rune(rapid.IntRange(0x80, 0xffff).Draw(t, "bmp"))
		case 8:
			return rune(rapid.IntRange(0x10000, 0x10ffff).Draw(t, "astral"))
		default:
			return rapid.Rune().Draw(t, "any")
		}
	})
}

func fixRune(r rune) rune {
	if !utf8.ValidRune(r) { // surrogates are not encodable: outside "valid UTF-8 strings"
		return 0xfffd
	}
	return r
}

// genString draws a valid UTF-8 string.
func genString(label string) *rapid.Generator[string] {
	return rapid.Custom(func(t *rapid.T) string {
		var s string
		switch k := rapid.IntRange(0, 15).Draw(t, label+"Kind"); {
		case k == 0:
			s = ""
		case k <= 2:
			s = rapid.SampledFrom(literalStrings).Draw(t, "literal")
		case k == 3: // ABI padding boundaries, ASCII
			n := rapid.SampledFrom(boundaryLens).Draw(t, "len")
			s = strings.Repeat(string(rune(rapid.IntRange(0x21, 0x7e).Draw(t, "ch"))), n)
		case k == 4: // padding boundaries with a multi-byte tail
			n := rapid.SampledFrom(boundaryLens).Draw(t, "len")
			r := fixRune(genRune().Draw(t, "tail"))
			rl := utf8.RuneLen(r)
			if n < rl {
				n = rl
			}
			s = strings.Repeat("a", n-rl) + string(r)
		case k == 5: // long
			unit := string(fixRune(genRune().Draw(t, "unit")))
			max := 6000
			if rapid.IntRange(0, 19).Draw(t, "veryLong") == 0 {
				max = 70000
			}
			n := rapid.IntRange(1000, max).Draw(t, "bytes")
			s = strings.Repeat(unit, n/len(unit)+1)
		default:
			n := rapid.IntRange(1, 24).Draw(t, "n")
			var sb strings.Builder
			for i := 0; i < n; i++ {
				sb.WriteRune(fixRune(genRune().Draw(t, "r")))
			}
			s = sb.String()
		}
		if !utf8.ValidString(s) {
			// "\xef\xbf\xbd"-style literals are valid; anything else invalid would be a generator bug
			kit.Failf("generator produced invalid UTF-8: %q", s)
		}
		return s
	})
}

// genSmallString draws from a tiny alphabet so that equal values and near misses are frequent.
func genSmallString(label string) *rapid.Generator[string] {
	return rapid.SampledFrom([]string{"", "a", "b", "ab", "ba", "a\x00", "\x00", "aa"})
}

var literalBytes = [][]byte{
	{0}, {0xff}, {0xc0, 0x80}, {0xed, 0xa0, 0x80}, {0xf4, 0x90, 0x80, 0x80}, {0xe2, 0x80}, []byte("null"), []byte(`"`),
	word(32), word(64), word(0), append(word(32), word(0)...),
}

// genBytes draws a byte string (nil, empty, boundary lengths, non-UTF-8, ABI look-alikes, nested encodings).
func genBytes(label string) *rapid.Generator[[]byte] {
	return rapid.Custom(func(t *rapid.T) []byte {
		switch k := rapid.IntRange(0, 13).Draw(t, label+"Kind"); {
		case k == 0:
			return nil
		case k == 1:
			return []byte{}
		case k == 2:
			return append([]byte{}, rapid.SampledFrom(literalBytes).Draw(t, "literal")...)
		case k == 3:
			n := rapid.SampledFrom(boundaryLens).Draw(t, "len")
			return rapid.SliceOfN(rapid.Byte(), n, n).Draw(t, "bytes")
		case k == 4:
			n := rapid.SampledFrom(boundaryLens).Draw(t, "len")
			b := make([]byte, n)
			fill := rapid.SampledFrom([]byte{0, 0xff, 0x20, 0x2f}).Draw(t, "fill")
			for i := range b {
				b[i] = fill
			}
			return b
		case k == 5: // nested transfer data, as the endpoint contract builds it
			v := []field{{K: 's', S: genString("token").Draw(t, "token")}, {K: 's', S: genString("ori").Draw(t, "ori")},
				{K: 'b', B: word(rapid.Uint64().Draw(t, "amount"))}, {K: 's', S: genString("recv").Draw(t, "recv")}}
			return refEncode(v)
		case k == 6: // nested call data
			v := []field{{K: 's', S: genString("contract").Draw(t, "contract")}, {K: 'b', B: rapid.SliceOfN(rapid.Byte(), 0, 40).Draw(t, "cd")}}
			return refEncode(v)
		case k == 7:
			max := 6000
			if rapid.IntRange(0, 19).Draw(t, "veryLong") == 0 {
				max = 70000
			}
			n := rapid.IntRange(1000, max).Draw(t, "n")
			b := make([]byte, n)
			seed := rapid.Byte().Draw(t, "seed")
			for i := range b {
				b[i] = seed + byte(i*7)
			}
			return b
		default:
			return rapid.SliceOfN(rapid.Byte(), 1, 48).Draw(t, "bytes")
		}
	})
}

var boundaryUints = []uint64{0, 1, 2, 9, 10, 47, 255, 256, 65535, 65536, 1<<31 - 1, 1 << 31, 1<<32 - 1, 1 << 32,
	1<<53 - 1, 1 << 53, 1<<53 + 1, 1<<63 - 1, 1 << 63, 1<<63 + 1, ^uint64(0) - 1, ^uint64(0)}

func genUint(label string) *rapid.Generator[uint64] {
	return rapid.Custom(func(t *rapid.T) uint64 {
		switch rapid.IntRange(0, 5).Draw(t, label+"Kind") {
		case 0, 1:
			return rapid.SampledFrom(boundaryUints).Draw(t, "boundary")
		case 2:
			k := rapid.IntRange(1, 63).Draw(t, "k")
			return uint64(1)<<uint(k) + uint64(rapid.IntRange(-1, 1).Draw(t, "d"))
		case 3:
			return rapid.Uint64Range(0, 1000).Draw(t, "small")
		default:
			return rapid.Uint64().Draw(t, "any")
		}
	})
}

// genValue draws a value of the codec's type from the hostile generators.
func genValue(t *rapid.T, c *codec) []field {
	v := make([]field, len(c.kinds))
	for i := range c.kinds {
		switch c.kinds[i] {
		case 's':
			v[i] = field{K: 's', S: genString(c.names[i]).Draw(t, c.names[i])}
		case 'b':
			v[i] = field{K: 'b', B: genBytes(c.names[i]).Draw(t, c.names[i])}
		case 'u':
			v[i] = field{K: 'u', U: genUint(c.names[i]).Draw(t, c.names[i])}
		}
	}
	return v
}

// genSmallValue draws from tiny domains (collisions between two draws are frequent).
func genSmallValue(t *rapid.T, c *codec) []field {
	v := make([]field, len(c.kinds))
	for i := range c.kinds {
		switch c.kinds[i] {
		case 's':
			v[i] = field{K: 's', S: genSmallString(c.names[i]).Draw(t, c.names[i])}
		case 'b':
			b := []byte(genSmallString(c.names[i]).Draw(t, c.names[i]))
			if len(b) == 0 && rapid.Bool().Draw(t, "nil") {
				b = nil
			}
			v[i] = field{K: 'b', B: b}
		case 'u':
			v[i] = field{K: 'u', U: rapid.SampledFrom([]uint64{0, 1, 256, 1 << 63}).Draw(t, c.names[i])}
		}
	}
	return v
}

// ---------------------------------------------------------------------------------------------
// G-names: valid chain names

const nameAlphabet = "abcdefghijklmnopqrstuvwxyzABCDEFGHIJKLMNOPQRSTUVWXYZ0123456789._+-#[]<>"

var keywordNames = []string{
	"sequences", "clientState", "consensusStates", "commitments", "receipts", "acks", "nextSequenceSend", "clients",
	"relayer", "relayers", "processedTime", "iterateConsensusStates", "chainName", "recentSingers", "ethHeaderIndex",
	"000", "001", "123", "1-1", "0-47", "47-0", "...", "---", "###", "[<>]", "<>+",
}

func validName(s string) bool {
	return host.SrcChainValidator(s) == nil && host.DstChainValidator(s) == nil && host.ClientIdentifierValidator(s) == nil
}

func genFreshName() *rapid.Generator[string] {
	return rapid.Custom(func(t *rapid.T) string {
		switch rapid.IntRange(0, 5).Draw(t, "nameKind") {
		case 0, 1:
			return rapid.SampledFrom(keywordNames).Draw(t, "keyword")
		case 2:
			n := rapid.SampledFrom([]int{3, 4, 63, 64}).Draw(t, "len")
			ch := nameAlphabet[rapid.IntRange(0, len(nameAlphabet)-1).Draw(t, "ch")]
			return strings.Repeat(string(ch), n)
		default:
			n := rapid.IntRange(3, 12).Draw(t, "len")
			b := make([]byte, n)
			for i := range b {
				b[i] = nameAlphabet[rapid.IntRange(0, len(nameAlphabet)-1).Draw(t, "ch")]
			}
			return string(b)
		}
	})
}

var lookalike = map[byte][]byte{'l': []byte("1I"), 'I': []byte("l1"), '1': []byte("lI"), 'O': []byte("0"), '0': []byte("O"),
	'.': []byte("-_"), '-': []byte("._"), '_': []byte("-."), '<': []byte("["), '[': []byte("<")}

// genRelatedName derives a look-alike / prefix / suffix variant of base (always valid).
func genRelatedName(base string) *rapid.Generator[string] {
	return rapid.Custom(func(t *rapid.T) string {
		out := base
		switch rapid.IntRange(0, 7).Draw(t, "variant") {
		case 0: // suffix
			out = base + string(nameAlphabet[rapid.IntRange(0, len(nameAlphabet)-1).Draw(t, "ch")])
		case 1: // prefix
			if len(base) > 3 {
				out = base[:rapid.IntRange(3, len(base)-1).Draw(t, "cut")]
			}
		case 2: // case flip
			i := rapid.IntRange(0, len(base)-1).Draw(t, "i")
			b := []byte(base)
			switch {
			case b[i] >= 'a' && b[i] <= 'z':
				b[i] -= 32
			case b[i] >= 'A' && b[i] <= 'Z':
				b[i] += 32
			}
			out = string(b)
		case 3: // look-alike character
			b := []byte(base)
			for i := range b {
				if alts, ok := lookalike[b[i]]; ok {
					b[i] = alts[rapid.IntRange(0, len(alts)-1).Draw(t, "alt")]
					break
				}
			}
			out = string(b)
		case 4: // insert a separator-looking character
			i := rapid.IntRange(1, len(base)-1).Draw(t, "i")
			out = base[:i] + rapid.SampledFrom([]string{".", "-", "_", "#", "+"}).Draw(t, "sep") + base[i:]
		case 5: // keyword glued on
			out = base + "." + rapid.SampledFrom(keywordNames[:9]).Draw(t, "kw")
		case 6: // drop first char
			if len(base) > 3 {
				out = base[1:]
			}
		default: // digits appended (sequence look-alike)
			out = base + rapid.SampledFrom([]string{"0", "1", "47", "00"}).Draw(t, "digits")
		}
		if len(out) > 64 {
			out = out[:64]
		}
		if !validName(out) {
			return base
		}
		return out
	})
}

// genNamePool draws n pairwise distinct valid names, biased to near misses of one another.
func genNamePool(t *rapid.T, n int) []string {
	var pool []string
	seen := map[string]bool{}
	for tries := 0; len(pool) < n && tries < 20*n; tries++ {
		var s string
		if len(pool) > 0 && rapid.IntRange(0, 2).Draw(t, "related") > 0 {
			s = genRelatedName(pool[rapid.IntRange(0, len(pool)-1).Draw(t, "base")]).Draw(t, "name")
		} else {
			s = genFreshName().Draw(t, "name")
		}
		if !validName(s) {
			kit.Failf("name generator produced a name the host validators reject: %q", s)
		}
		if !seen[s] {
			seen[s] = true
			pool = append(pool, s)
		}
	}
	if len(pool) == 0 {
		kit.Failf("empty name pool")
	}
	return pool
}

func classifyName(s string, c classes) {
	for _, k := range keywordNames[:15] {
		if s == k {
			c.add("name:path_keyword")
		} else if strings.Contains(s, k) {
			c.add("name:contains_keyword")
		}
	}
	if len(s) == 3 || len(s) == 64 {
		c.add("name:len_boundary")
	}
	if strings.ContainsAny(s, "#[]<>+") {
		c.add("name:special_chars")
	}
	if strings.Trim(s, "0123456789-") == "" {
		c.add("name:numeric_lookalike")
	}
}

// related reports whether two names are near misses (prefix, case-fold equal, or edit distance 1 by length).
func related(a, b string) bool {
	if a == b {
		return false
	}
	if strings.HasPrefix(a, b) || strings.HasPrefix(b, a) || strings.HasSuffix(a, b) || strings.HasSuffix(b, a) || strings.EqualFold(a, b) {
		return true
	}
	if len(a) == len(b) {
		d := 0
		for i := range a {
			if a[i] != b[i] {
				d++
			}
		}
		return d == 1
	}
	return false
}

// ---------------------------------------------------------------------------------------------
// sequences

var boundarySeqs = []uint64{0, 1, 2, 9, 10, 11, 12, 16, 47, 99, 100, 101, 255, 256, 303, 1000, 12079, 1<<32 - 1, 1 << 32, 1<<63 - 1, 1 << 63,
	9999999999999999999, 10000000000000000000, ^uint64(0) - 1, ^uint64(0)}

func genSeq() *rapid.Generator[uint64] {
	return rapid.Custom(func(t *rapid.T) uint64 {
		switch rapid.IntRange(0, 3).Draw(t, "seqKind") {
		case 0, 1:
			return rapid.SampledFrom(boundarySeqs).Draw(t, "boundary")
		case 2:
			return rapid.Uint64Range(0, 300).Draw(t, "small")
		default:
			return rapid.Uint64().Draw(t, "any")
		}
	})
}

// ---------------------------------------------------------------------------------------------
// G-heights

var keywordHeightBytes = []string{
	"/clientState", "/processedTime", "consensusStates/", "/sequences/", "clients/", "/", "//", "/consensusStates",
	"iterateConsensus", "processedTime", "clientState",
}

var boundaryHeights = []uint64{0, 1, 46, 47, 48, 255, 256, 303, 12079, 0x2f00, 0x2f2f, 47 << 56, 47 << 48, 47 << 32, 0x2f2f2f2f2f2f2f2f,
	1<<56 - 1, 1 << 56, 1<<63 - 1, 1 << 63, ^uint64(0) - 1, ^uint64(0), 0xff2f, 0x2fff, 0x002f00}

func genHeightWord() *rapid.Generator[uint64] {
	return rapid.Custom(func(t *rapid.T) uint64 {
		switch rapid.IntRange(0, 7).Draw(t, "hKind") {
		case 0, 1:
			return rapid.SampledFrom(boundaryHeights).Draw(t, "boundary")
		case 2: // realistic
			return rapid.Uint64Range(0, 100000).Draw(t, "realistic")
		case 3, 4: // random with planted bytes
			var b [8]byte
			binary.BigEndian.PutUint64(b[:], rapid.Uint64().Draw(t, "base"))
			n := rapid.IntRange(1, 3).Draw(t, "plants")
			for i := 0; i < n; i++ {
				b[rapid.IntRange(0, 7).Draw(t, "pos")] = rapid.SampledFrom([]byte{0x2f, 0x2f, 0x00, 0xff, 0x2e, 0x30}).Draw(t, "byte")
			}
			return binary.BigEndian.Uint64(b[:])
		case 5: // 2^8k neighbours
			k := rapid.IntRange(1, 7).Draw(t, "k")
			return uint64(1)<<uint(8*k) + uint64(rapid.IntRange(-1, 1).Draw(t, "d"))
		default:
			return rapid.Uint64().Draw(t, "any")
		}
	})
}

// genHeight draws (revision number, revision height) over the full uint64 range.
func genHeight() *rapid.Generator[clienttypes.Height] {
	return rapid.Custom(func(t *rapid.T) clienttypes.Height {
		if rapid.IntRange(0, 9).Draw(t, "kw") == 9 {
			// the 16 key bytes spell a path keyword (right-aligned, random fill on the left)
			kw := rapid.SampledFrom(keywordHeightBytes).Draw(t, "keyword")
			var b [16]byte
			binary.BigEndian.PutUint64(b[:8], rapid.Uint64().Draw(t, "fillA"))
			binary.BigEndian.PutUint64(b[8:], rapid.Uint64().Draw(t, "fillB"))
			if rapid.Bool().Draw(t, "left") {
				copy(b[:], kw)
			} else {
				copy(b[16-len(kw):], kw)
			}
			return clienttypes.NewHeight(binary.BigEndian.Uint64(b[:8]), binary.BigEndian.Uint64(b[8:]))
		}
		var rev uint64
		if rapid.IntRange(0, 2).Draw(t, "revKind") == 2 {
			rev = genHeightWord().Draw(t, "rev")
		} else {
			rev = rapid.SampledFrom([]uint64{0, 0, 1, 2, 47, 9000}).Draw(t, "revSmall")
		}
		return clienttypes.NewHeight(rev, genHeightWord().Draw(t, "height"))
	})
}

func heightBytes(h clienttypes.Height) [16]byte {
	var b [16]byte
	binary.BigEndian.PutUint64(b[:8], h.RevisionNumber)
	binary.BigEndian.PutUint64(b[8:], h.RevisionHeight)
	return b
}

// hasSlash reports whether one of the 16 key bytes of the height is the path separator 0x2f.
func hasSlash(h clienttypes.Height) bool {
	b := heightBytes(h)
	for _, x := range b {
		if x == 0x2f {
			return true
		}
	}
	return false
}

func classifyHeight(h clienttypes.Height, c classes) {
	b := heightBytes(h)
	s := string(b[:])
	nz := 0
	for i, x := range b {
		switch x {
		case 0x2f:
			c.add("height:byte_0x2f")
			if i < 8 {
				c.add("height:0x2f_in_revision")
			}
		case 0xff:
			c.add("height:byte_0xff")
		}
		if x != 0 {
			nz++
		}
	}
	for _, kw := range keywordHeightBytes {
		if len(kw) > 2 && strings.Contains(s, kw) {
			c.add("height:spells_keyword")
		}
	}
	if h.RevisionHeight >= 1<<63 || h.RevisionNumber >= 1<<63 {
		c.add("height:>=2^63")
	}
	if h.RevisionNumber == 0 && h.RevisionHeight <= 100000 {
		c.add("height:realistic")
	}
	switch h.RevisionHeight {
	case 47, 303, 12079, 47 << 56:
		c.add("height:named_47/303/12079/47<<56")
	}
}
