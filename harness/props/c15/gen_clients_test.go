package c15

import (
	"crypto/ecdsa"
	"fmt"
	"math/big"
	"strings"
	"time"

	ics23 "github.com/confio/ics23/go"
	"github.com/ethereum/go-ethereum/common"
	gethtypes "github.com/ethereum/go-ethereum/core/types"
	"github.com/ethereum/go-ethereum/crypto"
	"github.com/ethereum/go-ethereum/rlp"
	"golang.org/x/crypto/sha3"
	"pgregory.net/rapid"

	sdk "github.com/cosmos/cosmos-sdk/types"
	"github.com/cosmos/cosmos-sdk/types/bech32"

	bsctypes "github.com/teleport-network/teleport/x/xibc/clients/light-clients/bsc/types"
	ethtypes "github.com/teleport-network/teleport/x/xibc/clients/light-clients/eth/types"
	tmtypes "github.com/teleport-network/teleport/x/xibc/clients/light-clients/tendermint/types"
	tsstypes "github.com/teleport-network/teleport/x/xibc/clients/tss-client/types"
	clienttypes "github.com/teleport-network/teleport/x/xibc/core/client/types"
	commitmenttypes "github.com/teleport-network/teleport/x/xibc/core/commitment/types"
	"github.com/teleport-network/teleport/x/xibc/exported"

	"verif/harness/kit"
)

var clientKinds = []string{exported.Tendermint, exported.TSS, exported.BSC, exported.ETH}

// ---------------------------------------------------------------------------------------------
// heights

// height draws a height; zeroOK says that the validation in this position accepts a zero revision height.
func (g *tagger) height(name string, normal clienttypes.Height, pct int, zeroOK bool) clienttypes.Height {
	if !g.edge(name, pct) {
		return normal
	}
	hs := []clienttypes.Height{
		{RevisionNumber: 0, RevisionHeight: 1}, {RevisionNumber: 0, RevisionHeight: 47},
		{RevisionNumber: 47, RevisionHeight: 12079}, {RevisionNumber: ^uint64(0), RevisionHeight: ^uint64(0)},
		{RevisionNumber: 0, RevisionHeight: ^uint64(0)}, {RevisionNumber: 0, RevisionHeight: 1 << 63}, {RevisionNumber: 9000, RevisionHeight: 2},
		{}, {RevisionNumber: 1, RevisionHeight: 0},
	}
	nRej := 2
	if zeroOK {
		nRej = 0
	}
	h := hs[g.pick2(name+".edge", len(hs)-nRej, nRej)]
	g.tag(fmt.Sprintf("%s=%s-%s", name, u64class(h.RevisionNumber), u64class(h.RevisionHeight)))
	return h
}

// ---------------------------------------------------------------------------------------------
// Tendermint

func (g *tagger) tmClientState() *tmtypes.ClientState {
	cs := &tmtypes.ClientState{
		ChainId:         "testchain-1",
		TrustLevel:      tmtypes.DefaultTrustLevel,
		TrustingPeriod:  kit.TrustingPeriod,
		UnbondingPeriod: kit.UnbondingPeriod,
		MaxClockDrift:   kit.MaxClockDrift,
		LatestHeight:    clienttypes.NewHeight(1, 10),
		ProofSpecs:      commitmenttypes.GetSDKSpecs(),
		MerklePrefix:    commitmenttypes.MerklePrefix{KeyPrefix: []byte("xibc")},
	}
	if g.edge("tm.chainId", 12) {
		ids := []string{"x", "teleport_9000-1", strings.Repeat("c", 300), "chain-18446744073709551615", "chain-99999999999999999999", " a ", "", "  "}
		i := g.pick2("tm.chainId.edge", 6, 2)
		cs.ChainId = ids[i]
		g.tag("tm.chainId=" + []string{"1char", "native", "long", "maxrev", "overflowrev", "spaces", "empty", "blank"}[i])
	}
	if g.edge("tm.trustLevel", 15) {
		fr := []tmtypes.Fraction{{Numerator: 1, Denominator: 3}, {Numerator: 1, Denominator: 1}, {Numerator: 2, Denominator: 3},
			{Numerator: ^uint64(0), Denominator: ^uint64(0)}, {Numerator: 1 << 62, Denominator: 1 << 63}, {Numerator: 6148914691236517206, Denominator: 1},
			{Numerator: 0, Denominator: 0}, {Numerator: 1, Denominator: 0}, {Numerator: 0, Denominator: 1}, {Numerator: 1, Denominator: 4}, {Numerator: 2, Denominator: 1}}
		i := g.pick2("tm.trustLevel.edge", 5, 6)
		cs.TrustLevel = fr[i]
		g.tag(fmt.Sprintf("tm.trustLevel=%s/%s", u64class(fr[i].Numerator), u64class(fr[i].Denominator)))
	}
	if g.edge("tm.periods", 15) {
		type pp struct {
			t, u time.Duration
			n    string
		}
		ps := []pp{{1, 2, "1ns<2ns"}, {-1, 1, "neg<1"}, {-1 << 63, -1, "min<neg"}, {1<<63 - 2, 1<<63 - 1, "max-1<max"}, {-5, 1<<63 - 1, "neg<max"},
			{0, 1, "trust0"}, {1, 0, "unbond0"}, {2, 1, "trust>unbond"}, {5, 5, "equal"}}
		p := ps[g.pick2("tm.periods.edge", 5, 4)]
		cs.TrustingPeriod, cs.UnbondingPeriod = p.t, p.u
		g.tag("tm.periods=" + p.n)
	}
	if g.edge("tm.drift", 10) {
		ds := []time.Duration{1, -1, 1<<63 - 1, -1 << 63, 0}
		i := g.pick2("tm.drift.edge", 4, 1)
		cs.MaxClockDrift = ds[i]
		g.tag("tm.drift=" + []string{"1ns", "neg", "max", "min", "0"}[i])
	}
	cs.LatestHeight = g.height("tm.latestHeight", cs.LatestHeight, 15, false)
	if g.edge("tm.proofSpecs", 15) {
		switch g.pick2("tm.proofSpecs.edge", 4, 2) {
		case 0:
			cs.ProofSpecs = []*ics23.ProofSpec{{}}
			g.tag("tm.proofSpecs=emptySpec")
		case 1:
			cs.ProofSpecs = []*ics23.ProofSpec{{LeafSpec: nil, InnerSpec: &ics23.InnerSpec{ChildOrder: []int32{-1, 1 << 30}, ChildSize: -1, MinPrefixLength: -5}, MaxDepth: -1, MinDepth: 1 << 30}}
			g.tag("tm.proofSpecs=degenerateInner")
		case 2:
			cs.ProofSpecs = []*ics23.ProofSpec{ics23.IavlSpec}
			g.tag("tm.proofSpecs=single")
		case 3:
			var many []*ics23.ProofSpec
			for i := 0; i < 40; i++ {
				many = append(many, ics23.TendermintSpec)
			}
			cs.ProofSpecs = many
			g.tag("tm.proofSpecs=many")
		case 4:
			cs.ProofSpecs = nil
			g.tag("tm.proofSpecs=nil")
		default:
			cs.ProofSpecs = []*ics23.ProofSpec{}
			g.tag("tm.proofSpecs=emptyList")
		}
	}
	if g.edge("tm.prefix", 10) {
		cs.MerklePrefix = commitmenttypes.MerklePrefix{KeyPrefix: g.edgeBytes("tm.prefix.bytes", 4, 100)}
	}
	cs.TimeDelay = g.edgeU64("tm.timeDelay", 0, 10)
	return cs
}

func (g *tagger) tmConsState() *tmtypes.ConsensusState {
	pct := 15
	if g.rejPct < 15 {
		pct = 4 // genesis validation runs ConsensusState.ValidateBasic (proposal validation does not)
	}
	cons := &tmtypes.ConsensusState{
		Timestamp:          kit.Epoch.Add(time.Duration(rapid.IntRange(-3600, 3600).Draw(g.t, "tmcons.dt")) * time.Second),
		Root:               g.edgeBytes("tmcons.root", 32, pct),
		NextValidatorsHash: g.edgeBytes("tmcons.nextVals", 32, pct),
	}
	if g.edge("tmcons.time", pct) {
		ts := []time.Time{time.Unix(0, 0).UTC(), time.Unix(1, 0).UTC(), time.Date(1, 1, 1, 0, 0, 0, 0, time.UTC), time.Date(9999, 12, 31, 23, 59, 59, 999999999, time.UTC),
			time.Unix(-1, 0).UTC(), {}, time.Date(10000, 1, 1, 0, 0, 0, 0, time.UTC)}
		i := g.pick("tmcons.time.edge", len(ts))
		cons.Timestamp = ts[i]
		g.tag("tmcons.time=" + []string{"unix0", "unix1", "year1", "year9999", "unix-1", "zero", "year10000"}[i])
	}
	return cons
}

// ---------------------------------------------------------------------------------------------
// BSC (parlia headers are signed constructively so that Initialize gets past ecrecover)

func bscSealHash(h bsctypes.Header, chainID uint64) (hash common.Hash) {
	hasher := sha3.NewLegacyKeccak256()
	extra := h.Extra
	if len(extra) >= 65 {
		extra = extra[:len(extra)-65]
	}
	_ = rlp.Encode(hasher, []interface{}{
		new(big.Int).SetUint64(chainID), h.ParentHash, h.UncleHash, h.Coinbase, h.Root, h.TxHash, h.ReceiptHash, h.Bloom, h.Difficulty,
		h.Height.RevisionHeight, h.GasLimit, h.GasUsed, h.Time, extra, h.MixDigest, h.Nonce,
	})
	hasher.Sum(hash[:0])
	return hash
}

func keyFromSeed(seed byte) *ecdsa.PrivateKey {
	k, err := crypto.ToECDSA(crypto.Keccak256([]byte{'c', '1', '5', seed}))
	kit.Must(err, "ecdsa key")
	return k
}

func (g *tagger) bscClientState() *bsctypes.ClientState {
	epoch := g.edgeU64("bsc.epoch", 200, 25)
	if epoch == 0 && listed("bsc-initialize-epoch-zero") {
		g.excluded["bsc-initialize-epoch-zero"]++
		g.tags = g.tags[:len(g.tags)-1]
		epoch = 1
		g.tag("bsc.epoch=1")
	}
	var number uint64
	switch {
	case g.edge("bsc.number", 25):
		ns := []uint64{0, 1, epoch + 1, ^uint64(0), 1 << 63, epoch - 1}
		i := g.pick("bsc.number.edge", len(ns))
		number = ns[i]
		g.tag("bsc.number=" + []string{"0", "1", "epoch+1", "max", "2^63", "epoch-1"}[i])
	case epoch != 0 && epoch < 1<<40:
		number = epoch * uint64(rapid.IntRange(0, 3).Draw(g.t, "bsc.numberK"))
	}
	h := bsctypes.Header{
		ParentHash:  g.edgeBytes("bsc.parentHash", 32, 5),
		UncleHash:   gethtypes.EmptyUncleHash.Bytes(),
		Root:        g.edgeBytes("bsc.root", 32, 5),
		TxHash:      g.edgeBytes("bsc.txHash", 32, 5),
		ReceiptHash: g.edgeBytes("bsc.receiptHash", 32, 5),
		Bloom:       make([]byte, 256),
		Difficulty:  []byte{2},
		Height:      clienttypes.NewHeight(0, number),
		GasLimit:    g.edgeU64("bsc.gasLimit", 30000000, 8),
		GasUsed:     g.edgeU64("bsc.gasUsed", 21000, 8),
		Time:        g.edgeU64("bsc.time", uint64(kit.Epoch.Unix()), 8),
		MixDigest:   make([]byte, 32),
		Nonce:       make([]byte, 8),
	}
	if g.edge("bsc.revision", 8) {
		h.Height.RevisionNumber = []uint64{1, 47, ^uint64(0)}[g.pick("bsc.revision.edge", 3)]
		g.tag("bsc.revision=" + u64class(h.Height.RevisionNumber))
	}
	if g.edge("bsc.bloom", 15) {
		h.Bloom = g.edgeBytes("bsc.bloom", 256, 100)
	}
	if g.edge("bsc.nonce", 10) {
		h.Nonce = g.edgeBytes("bsc.nonce", 8, 100)
	}
	if g.edge("bsc.mixDigest", 8) {
		switch g.pick2("bsc.mixDigest.edge", 2, 1) {
		case 0:
			h.MixDigest = nil
			g.tag("bsc.mixDigest=nil")
		case 1:
			h.MixDigest = make([]byte, 40)
			g.tag("bsc.mixDigest=40zeros")
		default:
			h.MixDigest = append(make([]byte, 31), 1)
			g.tag("bsc.mixDigest=nonzero")
		}
	}
	if g.edge("bsc.uncleHash", 4) {
		h.UncleHash = g.edgeBytes("bsc.uncleHash", 32, 100)
	}
	if g.edge("bsc.difficulty", 15) {
		ds := [][]byte{{1}, {0, 0, 0, 0, 0, 0, 0, 0, 2}, nil, {0}, append([]byte{1}, make([]byte, 8)...), append([]byte{0xff}, make([]byte, 40)...)}
		nAcc, nRej := 2, 4 // a difficulty whose low 64 bits are zero is rejected above block 0
		if number == 0 {
			nAcc, nRej = 6, 0
		}
		i := g.pick2("bsc.difficulty.edge", nAcc, nRej)
		h.Difficulty = ds[i]
		g.tag("bsc.difficulty=" + []string{"1", "padded2", "nil", "0", "2^64", "41bytes"}[i])
	}
	if (len(h.Bloom) > 256 || len(h.Nonce) > 8) && chance(g.t, "bsc.oversizeAtGenesisBlock", 70) {
		// constructive: the header conversion (and with it the size check) only runs above block 0
		h.Height.RevisionHeight = 0
	}
	// extra = vanity | validators | seal
	nVals := rapid.IntRange(1, 4).Draw(g.t, "bsc.nVals")
	valBytes := g.bytesN("bsc.vals", 20*nVals)
	if g.edge("bsc.extraVals", 25) {
		switch g.pick("bsc.extraVals.edge", 5) {
		case 0:
			valBytes = nil
			g.tag("bsc.extraVals=0")
		case 1:
			valBytes = g.bytesN("bsc.vals7", 20*nVals+7)
			g.tag("bsc.extraVals=20k+7")
		case 2:
			valBytes = g.bytesN("bsc.vals1", 1)
			g.tag("bsc.extraVals=1byte")
		case 3:
			valBytes = g.bytesN("bsc.valsMany", 20*400)
			g.tag("bsc.extraVals=400")
		default:
			valBytes = g.bytesN("bsc.vals19", 19)
			g.tag("bsc.extraVals=19bytes")
		}
	}
	vanity := g.bytesN("bsc.vanity", 32)
	h.Extra = append(append(append([]byte{}, vanity...), valBytes...), make([]byte, 65)...)
	chainID := g.edgeU64("bsc.chainId", 56, 10)
	if chainID >= 1<<63 && listed("bsc-initialize-chainid-overflow") {
		g.excluded["bsc-initialize-chainid-overflow"]++
		g.tags = g.tags[:len(g.tags)-1]
		chainID = 1<<63 - 1
		g.tag("bsc.chainId=2^63-1")
	}
	key := keyFromSeed(rapid.Byte().Draw(g.t, "bsc.key"))
	signer := crypto.PubkeyToAddress(key.PublicKey)
	h.Coinbase = signer.Bytes()
	if g.edge("bsc.coinbase", 15) {
		switch g.pick("bsc.coinbase.edge", 4) {
		case 0:
			h.Coinbase = append(g.bytesN("bsc.coinbasePad", 12), signer.Bytes()...)
			g.tag("bsc.coinbase=32bytes")
		case 1:
			h.Coinbase = nil
			g.tag("bsc.coinbase=nil")
		case 2:
			h.Coinbase = g.bytesN("bsc.coinbaseOther", 20)
			g.tag("bsc.coinbase=other")
		default:
			h.Coinbase = signer.Bytes()[1:]
			g.tag("bsc.coinbase=19bytes")
		}
	}
	sigKind := 0
	if g.edge("bsc.sig", 15) {
		sigKind = 1 + g.pick("bsc.sig.edge", 3)
	}
	switch sigKind {
	case 0:
		sig, err := crypto.Sign(bscSealHash(h, chainID).Bytes(), key)
		kit.Must(err, "sign bsc header")
		copy(h.Extra[len(h.Extra)-65:], sig)
	case 1:
		g.tag("bsc.sig=zeros")
	case 2:
		copy(h.Extra[len(h.Extra)-65:], g.bytesN("bsc.sigRandom", 65))
		g.tag("bsc.sig=random")
	default:
		sig, _ := crypto.Sign(bscSealHash(h, chainID+1).Bytes(), key)
		copy(h.Extra[len(h.Extra)-65:], sig)
		g.tag("bsc.sig=otherChainId")
	}
	if g.edge("bsc.extraShort", 3) {
		h.Extra = h.Extra[:[]int{0, 31, 96}[g.pick("bsc.extraShort.edge", 3)]]
		g.tag("bsc.extra=short")
	}
	cs := &bsctypes.ClientState{
		Header:          h,
		ChainId:         chainID,
		Epoch:           epoch,
		BlockInteval:    g.edgeU64("bsc.blockInterval", 3, 15),
		ContractAddress: g.edgeBytes("bsc.contract", 20, 10),
		TrustingPeriod:  g.edgeU64("bsc.trustingPeriod", 1000000, 15),
	}
	for i := 0; i < nVals; i++ {
		cs.Validators = append(cs.Validators, valBytes[min(20*i, len(valBytes)):min(20*i+20, len(valBytes))])
	}
	if g.edge("bsc.validators", 15) {
		switch g.pick("bsc.validators.edge", 4) {
		case 0:
			cs.Validators = nil
			g.tag("bsc.validators=none")
		case 1:
			cs.Validators = [][]byte{{}}
			g.tag("bsc.validators=emptyEntry")
		case 2:
			cs.Validators = [][]byte{g.bytesN("bsc.val19", 19), g.bytesN("bsc.val21", 21)}
			g.tag("bsc.validators=19and21bytes")
		default:
			cs.Validators = [][]byte{signer.Bytes(), signer.Bytes()}
			g.tag("bsc.validators=duplicate")
		}
	}
	return cs
}

func (g *tagger) bscConsState() *bsctypes.ConsensusState {
	return &bsctypes.ConsensusState{
		Timestamp: g.edgeU64("bsccons.timestamp", uint64(kit.Epoch.Unix()), 20),
		Height:    g.height("bsccons.height", clienttypes.NewHeight(0, 200), 15, true),
		Root:      g.edgeBytes("bsccons.root", 32, 15),
	}
}

// ---------------------------------------------------------------------------------------------
// ETH

func (g *tagger) ethClientState() *ethtypes.ClientState {
	h := ethtypes.Header{
		ParentHash:  g.edgeBytes("eth.parentHash", 32, 5),
		UncleHash:   g.edgeBytes("eth.uncleHash", 32, 5),
		Coinbase:    g.edgeBytes("eth.coinbase", 20, 8),
		Root:        g.edgeBytes("eth.root", 32, 8),
		TxHash:      g.edgeBytes("eth.txHash", 32, 5),
		ReceiptHash: g.edgeBytes("eth.receiptHash", 32, 5),
		Bloom:       make([]byte, 256),
		Difficulty:  []byte{2, 0, 0},
		Height:      clienttypes.NewHeight(0, 1000),
		GasLimit:    30000000,
		GasUsed:     21000,
		Time:        g.edgeU64("eth.time", uint64(kit.Epoch.Unix()), 10),
		Extra:       g.edgeBytes("eth.extra", 32, 12),
		MixDigest:   g.edgeBytes("eth.mixDigest", 32, 5),
		Nonce:       g.edgeU64("eth.nonce", 7, 8),
		BaseFee:     g.edgeBytes("eth.baseFee", 4, 15),
	}
	h.Height = g.height("eth.height", h.Height, 30, true)
	if g.edge("eth.gas", 15) {
		type gg struct {
			l, u uint64
			n    string
		}
		gs := []gg{{0, 0, "0/0"}, {1<<63 - 1, 1<<63 - 1, "cap/cap"}, {1<<63 - 1, 0, "cap/0"}, {1 << 63, 0, "cap+1"}, {5, 6, "used>limit"}, {^uint64(0), ^uint64(0), "max/max"}}
		x := gs[g.pick2("eth.gas.edge", 3, 3)]
		h.GasLimit, h.GasUsed = x.l, x.u
		g.tag("eth.gas=" + x.n)
	}
	if g.edge("eth.difficulty", 15) {
		ds := [][]byte{{1}, {0, 0, 0, 0, 0, 0, 0, 0, 2}, nil, {0}, append([]byte{1}, make([]byte, 8)...), append([]byte{0xff}, make([]byte, 40)...), make([]byte, 33)}
		nAcc, nRej := 2, 5 // a difficulty whose low 64 bits are zero is rejected above block 0
		if h.Height.RevisionHeight == 0 {
			nAcc, nRej = 7, 0
		}
		i := g.pick2("eth.difficulty.edge", nAcc, nRej)
		h.Difficulty = ds[i]
		g.tag("eth.difficulty=" + []string{"1", "padded2", "nil", "0", "2^64", "41bytes", "33zeros"}[i])
	}
	if g.edge("eth.bloom", 20) {
		h.Bloom = g.edgeBytes("eth.bloom", 256, 100)
		if len(h.Bloom) > 256 && chance(g.t, "eth.oversizeAtGenesisBlock", 70) {
			h.Height.RevisionHeight = 0 // constructive: the header conversion (and its size check) only runs above block 0
		}
		if len(h.Bloom) > 256 && h.Height.RevisionHeight == 0 && listed("eth-initialize-bloom-oversize") {
			g.excluded["eth-initialize-bloom-oversize"]++
			g.tags = g.tags[:len(g.tags)-1]
			h.Bloom = make([]byte, 256)
		}
	}
	return &ethtypes.ClientState{
		Header:          h,
		ChainId:         g.edgeU64("eth.chainId", 1, 10),
		ContractAddress: g.edgeBytes("eth.contract", 20, 10),
		TrustingPeriod:  g.edgeU64("eth.trustingPeriod", 1000000, 15),
		TimeDelay:       g.edgeU64("eth.timeDelay", 0, 10),
		BlockDelay:      g.edgeU64("eth.blockDelay", 0, 10),
	}
}

func (g *tagger) ethConsState() *ethtypes.ConsensusState {
	return &ethtypes.ConsensusState{
		Timestamp: g.edgeU64("ethcons.timestamp", uint64(kit.Epoch.Unix()), 20),
		Height:    g.height("ethcons.height", clienttypes.NewHeight(0, 1000), 15, true),
		Root:      g.edgeBytes("ethcons.root", 32, 15),
	}
}

// ---------------------------------------------------------------------------------------------
// TSS

// bech32Address draws an account address string; most are valid, the others are the odd shapes
// (upper case, other prefix, mixed case, long, empty payload).
func (g *tagger) bech32Address(name string, pct int) string {
	seed := rapid.IntRange(0, 5).Draw(g.t, name+".acct")
	valid := kit.NewAccount([]byte{'a', byte(seed)}).Acc.String()
	if !g.edge(name, pct) {
		return valid
	}
	prefix := sdk.GetConfig().GetBech32AccountAddrPrefix()
	switch g.pick2(name+".edge", 4, 4) {
	case 0:
		g.tag(name + "=uppercase")
		return strings.ToUpper(valid)
	case 1:
		s, err := bech32.ConvertAndEncode(prefix, g.bytesN(name+".b32", 32))
		kit.Must(err, "bech32")
		g.tag(name + "=32bytes")
		return s
	case 2:
		s, err := bech32.ConvertAndEncode(prefix, g.bytesN(name+".b255", 255))
		kit.Must(err, "bech32")
		g.tag(name + "=255bytes")
		return s
	case 3:
		s, err := bech32.ConvertAndEncode(prefix, g.bytesN(name+".b1", 1))
		kit.Must(err, "bech32")
		g.tag(name + "=1byte")
		return s
	case 4:
		s, err := bech32.ConvertAndEncode("cosmos", g.bytesN(name+".bo", 20))
		kit.Must(err, "bech32")
		g.tag(name + "=otherPrefix")
		return s
	case 5:
		g.tag(name + "=mixedCase")
		return strings.ToUpper(valid[:len(valid)/2]) + valid[len(valid)/2:]
	case 6:
		g.tag(name + "=empty")
		return ""
	default:
		s, err := bech32.ConvertAndEncode(prefix, g.bytesN(name+".b256", 256))
		kit.Must(err, "bech32")
		g.tag(name + "=256bytes")
		return s
	}
}

func (g *tagger) tssClientState() *tsstypes.ClientState {
	cs := &tsstypes.ClientState{
		TssAddress: g.bech32Address("tss.address", 25),
		Pubkey:     g.edgeBytes("tss.pubkey", 33, 20),
		Threshold:  g.edgeU64("tss.threshold", 2, 20),
	}
	switch {
	case !g.edge("tss.partPubkeys", 25):
		cs.PartPubkeys = [][]byte{g.bytesN("tss.pp0", 33), g.bytesN("tss.pp1", 33)}
	default:
		switch g.pick("tss.partPubkeys.edge", 4) {
		case 0:
			g.tag("tss.partPubkeys=none")
		case 1:
			cs.PartPubkeys = [][]byte{{}}
			g.tag("tss.partPubkeys=emptyEntry")
		case 2:
			for i := 0; i < 300; i++ {
				cs.PartPubkeys = append(cs.PartPubkeys, []byte{byte(i)})
			}
			g.tag("tss.partPubkeys=300")
		default:
			cs.PartPubkeys = [][]byte{g.bytesN("tss.ppBig", 4099)}
			g.tag("tss.partPubkeys=oversized")
		}
	}
	return cs
}

// ---------------------------------------------------------------------------------------------

func (g *tagger) clientState(kind string) exported.ClientState {
	switch kind {
	case exported.Tendermint:
		return g.tmClientState()
	case exported.TSS:
		return g.tssClientState()
	case exported.BSC:
		return g.bscClientState()
	default:
		return g.ethClientState()
	}
}

func (g *tagger) consState(kind string) exported.ConsensusState {
	switch kind {
	case exported.Tendermint:
		return g.tmConsState()
	case exported.TSS:
		return &tsstypes.ConsensusState{}
	case exported.BSC:
		return g.bscConsState()
	default:
		return g.ethConsState()
	}
}
