package c08

import (
	"os"
	"testing"

	"verif/harness/rec"
)

// TestMain: like rec.Main, plus evidence plumbing for native fuzzing — `go test -fuzz` runs the target in
// worker processes, each of which saves its counters in a side file that the coordinating process folds
// into the shard evidence before flushing.
func TestMain(m *testing.M) {
	code := m.Run()
	if isFuzzWorker() {
		writeSidecar()
		os.Exit(code)
	}
	mergeFuzzEvidence()
	rec.Flush()
	os.Exit(code)
}
