// C12 — token-pair registry stays self-consistent under every governance action.
package c12

import (
	"fmt"
	"strings"
	"testing"

	"pgregory.net/rapid"

	"verif/harness/kf"
	"verif/harness/kit"
	"verif/harness/rec"
	"verif/harness/sim/aggsim"
)

func TestMain(m *testing.M) { rec.Main(m) }

const rule = "rapid state machine on a fresh kit chain per case: register-coin (name equal to / different from base, ibc/ denominations), add-coin (to module-owned " +
	"and externally owned pairs), register-ERC20 (plain, misbehaving, self-destructible tokens, non-contracts), toggle, update-ERC20-address (fresh matching contract, " +
	"same address, other tracked contracts), self-destruct + conversion clean-up, interleaved conversions and coin->token->coin round trips across registry changes, " +
	"all governance through the real proposal handler in a cache context; non-trivial = a multi-denomination pair exists and an update or delete succeeds after it; " +
	"distinct by (pair count, successful action counts per kind, updates/deletes of multi-denomination pairs, round trips)"

func TestC12_Registry(t *testing.T) {
	r := rec.For("TestC12_Registry", rule)
	rapid.Check(t, func(t *rapid.T) { aggsim.RunRegistry(t, r) })
}

// ---------------------------------------------------------------------------------------------
// pinned reproductions (no generator): each passes silently when the behaviour no longer reproduces,
// prints KNOWN-FINDING when it reproduces and is listed, fails when it reproduces and is not listed.

func pinned(t *testing.T, test, key, what string, run func(w *aggsim.World) []string) {
	r := rec.For(test, "pinned: "+what)
	w := aggsim.NewWorld()
	steps := run(w)
	ctx := w.C.Ctx()
	reg := w.ReadRegistry(ctx)
	bad := append(reg.Check(), w.CheckLookups(ctx, reg)...)
	r.Case(test+"/history", true, func() interface{} { return map[string]interface{}{"history": steps, "violations": bad} })
	r.Case(test+"/registry", true, nil)
	if len(bad) == 0 {
		return
	}
	if kf.Listed("C12", key) {
		kf.Report("C12", key)
		r.KnownFinding(key, strings.Join(bad, "; "))
		return
	}
	t.Fatalf("%s\nhistory: %s\nregistry inconsistent: %s", what, strings.Join(steps, " | "), strings.Join(bad, "\n"))
}

func must(err error, invalid bool, what string) string {
	if err != nil {
		kit.Failf("%s: %v (invalid=%v)", what, err, invalid)
	}
	return what
}

// RegisterERC20(T) ; AddCoin(acoin, T) ; UpdateTokenPairERC20(T -> T') : acoin loses its index entry.
func TestC12_Known_UpdateErc20DropsDenomIndex(t *testing.T) {
	pinned(t, "TestC12_Known_UpdateErc20DropsDenomIndex", aggsim.KeyUpdateMultiDenom,
		"update-ERC20-address on a pair with two denominations", func(w *aggsim.World) []string {
			u := w.Users[0]
			t1 := w.DeployToken(aggsim.KindPlain, u, "tka", "TKA", 6, 0)
			t2 := w.DeployToken(aggsim.KindPlain, u, "tka", "TKA", 6, 0)
			var h []string
			err, inv := w.RegisterERC20(t1.Addr)
			h = append(h, must(err, inv, "RegisterERC20 "+t1.Addr.Hex()))
			err, inv = w.AddCoin(aggsim.CoinMetadata("acoin", true, "a coin"), t1.Addr.Hex())
			h = append(h, must(err, inv, "AddCoin acoin to "+t1.Addr.Hex()))
			err, inv = w.UpdateERC20(t1.Addr, t2.Addr)
			h = append(h, must(err, inv, "UpdateTokenPairERC20 "+t1.Addr.Hex()+" -> "+t2.Addr.Hex()))
			return h
		})
}

// RegisterERC20(T1) ; RegisterERC20(T2) ; UpdateTokenPairERC20(T1 -> T2) : T2 belongs to two pairs.
func TestC12_Known_UpdateErc20ToRegisteredContract(t *testing.T) {
	pinned(t, "TestC12_Known_UpdateErc20ToRegisteredContract", aggsim.KeyUpdateToRegistered,
		"update-ERC20-address to a contract that already belongs to another pair", func(w *aggsim.World) []string {
			u := w.Users[0]
			t1 := w.DeployToken(aggsim.KindPlain, u, "tka", "TKA", 6, 0)
			t2 := w.DeployToken(aggsim.KindPlain, u, "tka", "TKA", 6, 0)
			var h []string
			err, inv := w.RegisterERC20(t1.Addr)
			h = append(h, must(err, inv, "RegisterERC20 "+t1.Addr.Hex()))
			err, inv = w.RegisterERC20(t2.Addr)
			h = append(h, must(err, inv, "RegisterERC20 "+t2.Addr.Hex()))
			err, _ = w.UpdateERC20(t1.Addr, t2.Addr)
			h = append(h, fmt.Sprintf("UpdateTokenPairERC20 %s -> %s: err=%v", t1.Addr.Hex(), t2.Addr.Hex(), err))
			return h
		})
}

// RegisterCoin(ibc/…, name "ATOM channel-7F") twice, then AddCoin of the same coin to the first pair: the
// duplicate test looks the metadata *name* up in the denomination index, which is keyed by the *base*.
// On the pinned tree the second registration is nevertheless refused, by accident: verifyMetadata compares
// the stored and the proposed denom units by pointer (types.EqualMetadata), so any coin whose metadata is
// already in the bank store is refused. The test therefore passes silently today and turns into a
// violation as soon as that comparison is repaired without repairing the duplicate test.
func TestC12_Known_RegisterChecksNameNotBase(t *testing.T) {
	pinned(t, "TestC12_Known_RegisterChecksNameNotBase", aggsim.KeyNameNotBase,
		"register-coin / add-coin of a denomination that is already registered (metadata name differs from base)", func(w *aggsim.World) []string {
			md := aggsim.CoinMetadata(aggsim.CoinDenoms[6], false, "ibc coin")
			var h []string
			err, inv := w.RegisterCoin(md)
			h = append(h, must(err, inv, "RegisterCoin "+md.Base+" name "+md.Name))
			first := w.Tokens[len(w.Tokens)-1].Addr
			err, _ = w.RegisterCoin(md)
			h = append(h, fmt.Sprintf("RegisterCoin again: err=%v", err))
			err, _ = w.AddCoin(md, first.Hex())
			h = append(h, fmt.Sprintf("AddCoin to the first pair: err=%v", err))
			return h
		})
}
