// C04 — send sequencing: gap-free sequences, one commitment per send, failed sends change nothing.
package c04

import (
	"bytes"
	"crypto/sha256"
	"fmt"
	"math/big"
	"sort"
	"strings"
	"testing"

	"github.com/ethereum/go-ethereum/common"
	"pgregory.net/rapid"

	"github.com/teleport-network/teleport/syscontracts"
	stakingcontract "github.com/teleport-network/teleport/syscontracts/staking"
	endpointcontract "github.com/teleport-network/teleport/syscontracts/xibc_endpoint"
	packetcontract "github.com/teleport-network/teleport/syscontracts/xibc_packet"
	packettypes "github.com/teleport-network/teleport/x/xibc/core/packet/types"

	"verif/harness/kit"
	"verif/harness/rec"
	"verif/harness/sim/asmkit"
	"verif/harness/sim/bridge"
)

func TestMain(m *testing.M) { rec.Main(m) }

const rule = "rapid state machine over 2-3 real chains with real and TSS destinations: valid sends, invalid sends (unknown destination, amount above balance, " +
	"huge amount, empty packet, direct Packet.sendPacket from a user account, chain-side counter desynchronised = 'wrong sequence'), several sends per block, interleaved with " +
	"client updates, receives and acks; non-trivial = >= 3 successful sends to >= 2 destinations with >= 1 failed send between them; distinct by (failure kinds, same-block multiplicity, interleaved receive/ack)"

type ctl struct {
	m              *bridge.Machine
	next           []map[string]uint64        // per chain: dst -> next expected sequence
	commits        []map[bridge.Triple][]byte // per chain: live commitments (sent, not acked)
	okSends        int
	dsts           map[string]bool
	failKinds      map[string]bool
	failBetween    bool
	sameBlock      int
	lastSendHeight map[int]int64
	interleaved    bool
}

var packetSentID = packetcontract.PacketContract.ABI.Events["PacketSent"].ID

func (c *ctl) onSend(o *bridge.SendOutcome) {
	m := c.m
	w := m.W
	src := o.Spec.Src
	ch := w.Chains[src]
	if !o.OK {
		if d := kit.Diff(o.Before, o.After); len(d) != 0 {
			m.Failf("failed send (code=%d vmerr=%q) changed state:\n%s", o.Res.Code, o.Res.VmError, kit.DiffString(d, 10))
		}
		if c.okSends > 0 {
			c.failBetween = true
		}
		return
	}
	if len(o.Pkts) != 1 {
		m.Failf("successful cross-chain call emitted %d EventSendPacket events, expected 1", len(o.Pkts))
	}
	p := o.Pkts[0]
	if p.P.SrcChain != ch.ChainID || p.P.DstChain != o.Spec.DstName {
		m.Failf("sent packet has path %s>%s, call was %s>%s", p.P.SrcChain, p.P.DstChain, ch.ChainID, o.Spec.DstName)
	}
	want := c.next[src][p.P.DstChain]
	if want == 0 {
		want = 1
	}
	if p.P.Sequence != want {
		m.Failf("send %s>%s got sequence %d, expected next sequence %d (gap, repeat or reordering)", p.P.SrcChain, p.P.DstChain, p.P.Sequence, want)
	}
	c.next[src][p.P.DstChain] = want + 1
	// the bytes emitted by the packet contract
	var emitted [][]byte
	for _, l := range o.Res.Logs {
		if l.Address == packetcontract.PacketContractAddress && len(l.Topics) > 0 && l.Topics[0] == packetSentID {
			vals, err := packetcontract.PacketContract.ABI.Unpack("PacketSent", l.Data)
			kit.Must(err, "unpack PacketSent")
			emitted = append(emitted, vals[0].([]byte))
		}
	}
	if len(emitted) != 1 {
		m.Failf("successful send produced %d PacketSent logs", len(emitted))
	}
	h := sha256.Sum256(emitted[0])
	c.commits[src][p.T] = h[:]
	dec := kit.DecodePacket(emitted[0])
	if (bridge.Triple{Src: dec.SrcChain, Dst: dec.DstChain, Seq: dec.Sequence}) != p.T {
		m.Failf("emitted bytes decode to %s>%s#%d but the packet was sent as %s", dec.SrcChain, dec.DstChain, dec.Sequence, p.T)
	}
	c.okSends++
	c.dsts[fmt.Sprintf("%d>%s", src, p.P.DstChain)] = true
	if c.lastSendHeight[src] == ch.Header.Height {
		c.sameBlock++
		m.R.Label("send_same_block")
	}
	c.lastSendHeight[src] = ch.Header.Height
}

func (c *ctl) onAck(p *bridge.Pkt, o bridge.TxOutcome) {
	if p.Acked {
		delete(c.commits[p.SrcIdx], p.T)
		c.interleaved = true
	}
}

func (c *ctl) check() {
	m := c.m
	w := m.W
	m.R.Step()
	// tokens are locked only by successful sends (also for sends made inside a receive callback)
	m.CheckLedger()
	for ci, ch := range w.Chains {
		ctx := ch.Ctx()
		dsts := []string{bridge.TSSName, "no-such-chain"}
		for _, o := range w.Chains {
			if o != ch {
				dsts = append(dsts, o.ChainID)
			}
		}
		for _, d := range dsts {
			want := c.next[ci][d]
			if want == 0 {
				want = 1
			}
			chainSide := ch.App.XIBCKeeper.PacketKeeper.GetNextSequenceSend(ctx, ch.ChainID, d)
			contractSide := ch.ContractNextSeq(d)
			if chainSide != want || contractSide != want {
				m.Failf("chain %d next send sequence to %s: chain-side %d, packet contract %d, model %d", ci, d, chainSide, contractSide, want)
			}
		}
		var got, wantC []string
		for _, pc := range ch.App.XIBCKeeper.PacketKeeper.GetAllPacketCommitments(ctx) {
			if pc.SrcChain != ch.ChainID {
				continue
			}
			got = append(got, fmt.Sprintf("%s>%s#%d=%x", pc.SrcChain, pc.DstChain, pc.Sequence, pc.Data))
		}
		for tr, h := range c.commits[ci] {
			wantC = append(wantC, fmt.Sprintf("%s=%x", tr, h))
		}
		sort.Strings(got)
		sort.Strings(wantC)
		if strings.Join(got, ",") != strings.Join(wantC, ",") {
			m.Failf("chain %d commitments differ from one-per-send model (value = sha256 of emitted bytes):\n got  %v\n want %v", ci, got, wantC)
		}
	}
}

// invalid sends -------------------------------------------------------------------------------

func (c *ctl) sendInvalid(t *rapid.T) {
	m := c.m
	w := m.W
	kind := rapid.SampledFrom([]string{"unknown-dst", "lookalike-dst", "over-balance", "huge-amount", "empty-packet", "direct-sendPacket", "wrong-sequence", "self-dst", "misnamed-contract"}).Draw(t, "kind")
	src := rapid.IntRange(0, len(w.Chains)-1).Draw(t, "src")
	ch := w.Chains[src]
	dst := w.Chains[(src+1)%len(w.Chains)].ChainID
	user := rapid.IntRange(0, 1).Draw(t, "user")
	spec := bridge.SendSpec{Src: src, DstName: dst, User: user, Token: w.Tok[src], Amount: big.NewInt(1), Fee: big.NewInt(0),
		Receiver: strings.ToLower(w.Users[0].Addr.String())}
	switch kind {
	case "unknown-dst":
		spec.DstName = "no-such-chain"
		spec.Token = common.Address{}
		if src != 0 {
			spec.Token = w.TTok[src]
		}
	case "lookalike-dst":
		// a destination that has no client of its own but resembles a name that has one (path syntax, letter case, blanks)
		spec.DstName = rapid.SampledFrom([]string{dst + "/", "./" + dst, "x/../" + dst, dst + "//", "/" + dst, " " + dst, dst + " ", strings.ToUpper(dst), dst + "\x00",
			"clients/" + dst, dst + "/clientState"}).Draw(t, "lookalike")
		spec.Token = common.Address{}
		if src != 0 {
			spec.Token = w.TTok[src]
		}
	case "self-dst":
		spec.DstName = ch.ChainID
	case "over-balance":
		bal := w.Balance(src, w.Tok[src], w.Users[user].Addr)
		spec.Amount = new(big.Int).Add(bal, big.NewInt(1))
	case "huge-amount":
		spec.Amount = new(big.Int).Lsh(big.NewInt(1), 255)
	case "empty-packet":
		spec.Amount = big.NewInt(0)
		spec.Token = common.Address{}
		spec.Receiver = ""
	case "direct-sendPacket":
		seq := ch.App.XIBCKeeper.PacketKeeper.GetNextSequenceSend(ch.Ctx(), ch.ChainID, dst)
		td := packettypes.TransferData{Token: strings.ToLower(w.Tok[src].String()), Amount: common.LeftPadBytes([]byte{9}, 32), Receiver: spec.Receiver}
		tdBz, _ := td.ABIPack()
		pk := packettypes.Packet{SrcChain: ch.ChainID, DstChain: dst, Sequence: seq, Sender: strings.ToLower(w.Users[user].Addr.String()), TransferData: tdBz, CallData: []byte{}, CallbackAddress: ""}
		data, err := packetcontract.PacketContract.ABI.Pack("sendPacket", pk, packettypes.Fee{TokenAddress: common.Address{}, Amount: big.NewInt(0)})
		kit.Must(err, "pack sendPacket")
		before := ch.DumpStores(ch.Ctx(), bridge.DigestStores...)
		to := packetcontract.PacketContractAddress
		res := ch.DeliverEth(w.Users[user], &to, nil, data)
		after := ch.DumpStores(ch.Ctx(), bridge.DigestStores...)
		if res.Succeeded() {
			m.Failf("direct Packet.sendPacket from a user account succeeded (packet %s>%s#%d)", pk.SrcChain, pk.DstChain, pk.Sequence)
		}
		if d := kit.Diff(before, after); len(d) != 0 {
			m.Failf("failed direct sendPacket changed state:\n%s", kit.DiffString(d, 10))
		}
		c.failKinds[kind] = true
		if c.okSends > 0 {
			c.failBetween = true
		}
		m.R.Label("invalid_" + kind)
		m.Log("sendInvalid", kind, "rejected, state unchanged")
		return
	case "misnamed-contract":
		// fault injection: the packet contract carries another chain name than the chain-side module (both are genesis
		// content: EVM storage and the xibc client genesis); every send must then fail without any change. The name is put
		// back afterwards so that the history continues.
		other := rapid.SampledFrom([]string{dst, ch.ChainID + "x", strings.ToUpper(ch.ChainID), "", "teleport"}).Draw(t, "contractName")
		setName := func(n string) {
			_, err := ch.App.XIBCKeeper.PacketKeeper.CallEVM(ch.Ctx(), packetcontract.PacketContract.ABI, packettypes.ModuleAddress, packetcontract.PacketContractAddress, "setChainName", n)
			kit.Must(err, "setChainName")
		}
		if w.Balance(src, w.Tok[src], w.Users[user].Addr).Sign() == 0 {
			spec.Token = common.Address{}
			if src != 0 {
				spec.Token = w.TTok[src]
			}
		}
		setName(other)
		restored := false
		defer func() {
			if !restored {
				setName(ch.ChainID)
			}
		}()
		out := w.Send(spec, true)
		if out.OK {
			m.Failf("send succeeded although the packet contract names the chain %q and the chain-side module %q (no commitment can exist for it)", other, ch.ChainID)
		}
		if d := kit.Diff(out.Before, out.After); len(d) != 0 {
			m.Failf("failed send (packet contract named %q on chain %q) changed state:\n%s", other, ch.ChainID, kit.DiffString(d, 10))
		}
		setName(ch.ChainID)
		restored = true
		c.failKinds[kind] = true
		if c.okSends > 0 {
			c.failBetween = true
		}
		m.R.Label("invalid_" + kind)
		m.Log("sendInvalid", kind+" "+other, "rejected, state unchanged")
		return
	case "wrong-sequence":
		// fault injection: the chain-side counter is moved away from the contract's counter; the send must
		// fail without any change; the counter is then restored so that the history continues.
		pkeeper := ch.App.XIBCKeeper.PacketKeeper
		cur := pkeeper.GetNextSequenceSend(ch.Ctx(), ch.ChainID, dst)
		pkeeper.SetNextSequenceSend(ch.Ctx(), ch.ChainID, dst, cur+uint64(rapid.IntRange(1, 5).Draw(t, "skew")))
		bal := w.Balance(src, w.Tok[src], w.Users[user].Addr)
		if bal.Sign() == 0 {
			spec.Token = common.Address{}
			if src != 0 {
				spec.Token = w.TTok[src]
			}
		}
		out := w.Send(spec, true)
		restored := false
		defer func() {
			if !restored {
				pkeeper.SetNextSequenceSend(ch.Ctx(), ch.ChainID, dst, cur)
			}
		}()
		if out.OK {
			m.Failf("send succeeded although the chain-side next sequence (%d) disagreed with the contract's (%d)", cur+1, cur)
		}
		if d := kit.Diff(out.Before, out.After); len(d) != 0 {
			m.Failf("failed send (wrong sequence) changed state:\n%s", kit.DiffString(d, 10))
		}
		pkeeper.SetNextSequenceSend(ch.Ctx(), ch.ChainID, dst, cur)
		restored = true
		if cur == 1 { // key did not exist before the injection; remove it again
			// SetNextSequenceSend(…, 1) leaves an explicit 1, which reads the same as "absent"
		}
		c.failKinds[kind] = true
		if c.okSends > 0 {
			c.failBetween = true
		}
		m.R.Label("invalid_" + kind)
		m.Log("sendInvalid", kind, "rejected, state unchanged")
		return
	}
	out := w.Send(spec, true)
	if out.OK {
		// not every "invalid" draw is invalid in every state (e.g. over-balance of a zero-balance token is
		// still over balance, but self-dst etc. must fail): only assert failure for kinds that are invalid by construction
		m.Failf("invalid send (%s) succeeded: %+v", kind, spec)
	}
	if d := kit.Diff(out.Before, out.After); len(d) != 0 {
		m.Failf("failed send (%s) changed state:\n%s", kind, kit.DiffString(d, 10))
	}
	c.failKinds[kind] = true
	if c.okSends > 0 {
		c.failBetween = true
	}
	m.R.Label("invalid_" + kind)
	m.Log("sendInvalid", kind, fmt.Sprintf("rejected (code=%d vm=%s), state unchanged", out.Res.Code, bridge.Short(out.Res.VmError)))
}

// sendBatch: one Ethereum transaction (a contract under construction) makes 2-3 cross-chain calls with native
// coins; either all are valid, or one in the middle is invalid and bubbles its failure (the whole transaction
// must then change nothing), or the invalid one is tolerated by the caller (the valid ones must be numbered
// consecutively).
func (c *ctl) sendBatch(t *rapid.T) {
	m := c.m
	w := m.W
	src := rapid.IntRange(0, len(w.Chains)-1).Draw(t, "src")
	ch := w.Chains[src]
	user := w.Users[rapid.IntRange(0, 1).Draw(t, "user")]
	n := rapid.IntRange(2, 3).Draw(t, "calls")
	mode := rapid.SampledFrom([]string{"all-valid", "all-valid", "one-invalid-bubbles", "one-invalid-tolerated"}).Draw(t, "mode")
	bad := -1
	if mode != "all-valid" {
		bad = rapid.IntRange(0, n-1).Draw(t, "badIndex")
	}
	var ops []asmkit.Op
	total := big.NewInt(0)
	var dsts []string
	for i := 0; i < n; i++ {
		dst := w.Chains[(src+1+rapid.IntRange(0, len(w.Chains)-2).Draw(t, "dst"))%len(w.Chains)].ChainID
		if rapid.IntRange(0, 3).Draw(t, "toTSS") == 0 {
			dst = bridge.TSSName
		}
		amt := big.NewInt(rapid.Int64Range(1, 50).Draw(t, "amount"))
		claimed := amt
		if i == bad {
			if mode == "one-invalid-bubbles" {
				dst = "no-such-chain" // fails in the chain-side post-processing of the transaction
			} else {
				claimed = new(big.Int).Add(amt, big.NewInt(1)) // claims more than the value it sends: fails inside the EVM call
			}
		}
		ccd := packettypes.CrossChainData{DstChain: dst, TokenAddress: common.Address{}, Receiver: strings.ToLower(w.Users[0].Addr.String()), Amount: claimed, CallData: []byte{}}
		data, err := endpointcontract.EndpointContract.ABI.Pack("crossChainCall", ccd, packettypes.Fee{TokenAddress: common.Address{}, Amount: big.NewInt(0)})
		kit.Must(err, "pack crossChainCall")
		ops = append(ops, asmkit.Op{Kind: asmkit.OpCall, Target: endpointcontract.EndpointContractAddress, Data: data, Value: amt, Try: i == bad && mode == "one-invalid-tolerated"})
		total.Add(total, amt)
		dsts = append(dsts, dst)
	}
	// the same transaction may go on to use another system contract: a delegation through the staking contract after the sends
	// (its events follow the PacketSent logs in the receipt; every hook must still see the logs that are its own)
	withStake := mode == "all-valid" && rapid.IntRange(0, 2).Draw(t, "thenDelegate") == 0
	if withStake {
		k := rapid.IntRange(1, 2).Draw(t, "delegations")
		val := ch.App.StakingKeeper.GetAllValidators(ch.Ctx())[0].OperatorAddress
		for i := 0; i < k; i++ {
			stake := big.NewInt(rapid.Int64Range(1, 1000).Draw(t, "stake"))
			data, err := stakingcontract.StakingContract.ABI.Pack("delegate", val, stake)
			kit.Must(err, "pack delegate")
			ops = append(ops, asmkit.Op{Kind: asmkit.OpCall, Target: common.HexToAddress(syscontracts.StakingContractAddress), Data: data, Value: big.NewInt(0)})
			total.Add(total, stake) // stays with the calling contract: the coins it delegates
		}
	}
	before := ch.DumpStores(ch.Ctx(), bridge.DigestStores...)
	res := ch.DeliverEth(user, nil, total, asmkit.Script(ops))
	after := ch.DumpStores(ch.Ctx(), bridge.DigestStores...)
	m.Log("sendBatch", fmt.Sprintf("%d %s %v", src, mode, dsts), fmt.Sprintf("ok=%v vm=%s", res.Succeeded(), bridge.Short(res.VmError)))
	if mode == "one-invalid-bubbles" {
		if res.Succeeded() {
			m.Failf("batch with an invalid send (unknown destination) that bubbles its failure succeeded")
		}
		if d := kit.Diff(before, after); len(d) != 0 {
			m.Failf("failed batch changed state:\n%s", kit.DiffString(d, 10))
		}
		c.failKinds["batch-invalid"] = true
		if c.okSends > 0 {
			c.failBetween = true
		}
		m.R.Label("batch_reverted")
		return
	}
	if !res.Succeeded() {
		// Two sends to the SAME destination in one transaction both read the contract's counter before the chain
		// side advances it, so the second one carries a stale sequence and the whole transaction is refused
		// (observed; not demanded or forbidden by the property). Whatever the reason of a failure: nothing may change.
		if d := kit.Diff(before, after); len(d) != 0 {
			m.Failf("failed batch (%s, destinations %v) changed state:\n%s", mode, dsts, kit.DiffString(d, 10))
		}
		seen := map[string]bool{}
		dup := false
		for i, d := range dsts {
			if i == bad {
				continue
			}
			if seen[d] {
				dup = true
			}
			seen[d] = true
		}
		if withStake {
			// whether the delegation itself can succeed from a contract under construction is not C04's matter
			m.R.Label("batch_with_delegation_refused")
			return
		}
		if !dup && mode == "all-valid" {
			m.Failf("batch of valid native sends to distinct destinations (destinations %v) failed: code=%d vm=%s", dsts, res.Code, res.VmError)
		}
		c.failKinds["batch-same-destination"] = true
		if c.okSends > 0 {
			c.failBetween = true
		}
		m.R.Label("batch_same_destination_refused")
		return
	}
	pkts := w.ObservePackets(src, res.TxResult)
	wantN := n
	if bad >= 0 {
		wantN = n - 1
	}
	if len(pkts) != wantN {
		m.Failf("batch (%s) with %d valid calls succeeded with %d packets", mode, wantN, len(pkts))
	}
	var emitted [][]byte
	for _, l := range res.Logs {
		if l.Address == packetcontract.PacketContractAddress && len(l.Topics) > 0 && l.Topics[0] == packetSentID {
			vals, err := packetcontract.PacketContract.ABI.Unpack("PacketSent", l.Data)
			kit.Must(err, "unpack PacketSent")
			emitted = append(emitted, vals[0].([]byte))
		}
	}
	if len(emitted) != len(pkts) {
		m.Failf("batch emitted %d PacketSent logs for %d packets", len(emitted), len(pkts))
	}
	for i, p := range pkts {
		want := c.next[src][p.P.DstChain]
		if want == 0 {
			want = 1
		}
		if p.P.Sequence != want {
			m.Failf("send %d of a batch: %s got sequence %d, expected next sequence %d", i, p.T, p.P.Sequence, want)
		}
		c.next[src][p.P.DstChain] = want + 1
		h := sha256.Sum256(emitted[i])
		c.commits[src][p.T] = h[:]
		m.ApplySendLedger(p)
		c.okSends++
		c.dsts[fmt.Sprintf("%d>%s", src, p.P.DstChain)] = true
	}
	if withStake {
		m.R.Label("batch_with_delegation_ok")
	}
	m.R.Label("batch_" + mode)
	m.R.LabelN("send_same_tx", len(pkts))
}

// sendTSS sends to the TSS-secured pseudo destination (a second kind of destination).
func (c *ctl) sendTSS(t *rapid.T) {
	m := c.m
	w := m.W
	src := rapid.IntRange(0, len(w.Chains)-1).Draw(t, "src")
	user := rapid.IntRange(0, 1).Draw(t, "user")
	tok := w.Tok[src]
	if w.Balance(src, tok, w.Users[user].Addr).Sign() == 0 {
		tok = common.Address{}
	}
	spec := bridge.SendSpec{Src: src, DstName: bridge.TSSName, User: user, Token: tok, Amount: big.NewInt(rapid.Int64Range(1, 20).Draw(t, "amount")),
		Fee: big.NewInt(0), Receiver: "0xremote"}
	out := w.Send(spec, true)
	m.Log("sendTSS", fmt.Sprintf("%d>tss %s", src, w.TokName(src, tok)), fmt.Sprintf("ok=%v", out.OK))
	if out.OK {
		for _, p := range out.Pkts {
			m.ApplySendLedger(p)
		}
	}
	c.onSend(out)
}

func run(t *rapid.T, r *rec.Recorder) {
	m := bridge.NewMachine(t, r)
	w := m.W
	c := &ctl{m: m, dsts: map[string]bool{}, failKinds: map[string]bool{}, lastSendHeight: map[int]int64{}}
	for range w.Chains {
		c.next = append(c.next, map[string]uint64{})
		c.commits = append(c.commits, map[bridge.Triple][]byte{})
	}
	m.CallKinds = []string{"", "", "ok", "nested-unknown", "agent", "agent"}
	m.OnSend = c.onSend
	m.OnAck = c.onAck
	m.OnRecv = func(p *bridge.Pkt, o bridge.TxOutcome) {
		c.interleaved = true
		// sends made by the destination callback (agent forwarding) are sends of this chain like any other
		for _, n := range p.Nested {
			want := c.next[n.SrcIdx][n.P.DstChain]
			if want == 0 {
				want = 1
			}
			if n.P.Sequence != want {
				m.Failf("send %s made inside a receive got sequence %d, expected next sequence %d", n.T, n.P.Sequence, want)
			}
			c.next[n.SrcIdx][n.P.DstChain] = want + 1
			h := sha256.Sum256(n.Bz)
			c.commits[n.SrcIdx][n.T] = h[:]
			c.okSends++
			c.dsts[fmt.Sprintf("%d>%s", n.SrcIdx, n.P.DstChain)] = true
			m.R.Label("send_inside_receive")
		}
	}
	acts := m.BaseActions()
	acts["send3"] = m.Wrap(m.ActSend)
	acts["sendInvalid"] = m.Wrap(c.sendInvalid)
	acts["sendInvalid2"] = m.Wrap(c.sendInvalid)
	acts["sendTSS"] = m.Wrap(c.sendTSS)
	acts["sendBatch"] = m.Wrap(c.sendBatch)
	acts["forgedSendEvent"] = m.Wrap(m.ActForgedSendEvent)
	acts[""] = func(t *rapid.T) { m.T = t; c.check() }
	t.Repeat(acts)
	var fk []string
	for k := range c.failKinds {
		fk = append(fk, k)
	}
	sort.Strings(fk)
	nontrivial := c.okSends >= 3 && len(c.dsts) >= 2 && c.failBetween
	r.Case(fmt.Sprintf("n=%d fail=%v sameBlock=%d interleaved=%v dsts=%d", len(w.Chains), fk, min(c.sameBlock, 3), c.interleaved, min(len(c.dsts), 4)), nontrivial,
		func() interface{} { return m.Hist })
}

func TestC04_SendSequencing(t *testing.T) {
	r := rec.For("TestC04_SendSequencing", rule)
	rapid.Check(t, func(t *rapid.T) { run(t, r) })
}

var _ = bytes.Equal
