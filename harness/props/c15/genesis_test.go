package c15

import (
	"encoding/json"
	"fmt"
	"regexp"
	"strings"
	"testing"

	"github.com/gogo/protobuf/proto"
	"pgregory.net/rapid"

	codectypes "github.com/cosmos/cosmos-sdk/codec/types"
	sdk "github.com/cosmos/cosmos-sdk/types"
	authtypes "github.com/cosmos/cosmos-sdk/x/auth/types"

	"github.com/teleport-network/teleport/app"
	aggregatemodule "github.com/teleport-network/teleport/x/aggregate/module"
	aggregatetypes "github.com/teleport-network/teleport/x/aggregate/types"
	rvestingmodule "github.com/teleport-network/teleport/x/rvesting/module"
	rvestingtypes "github.com/teleport-network/teleport/x/rvesting/types"
	clienttypes "github.com/teleport-network/teleport/x/xibc/core/client/types"
	"github.com/teleport-network/teleport/x/xibc/core/host"
	packettypes "github.com/teleport-network/teleport/x/xibc/core/packet/types"
	"github.com/teleport-network/teleport/x/xibc/exported"
	xibcmodule "github.com/teleport-network/teleport/x/xibc/module"
	xibctypes "github.com/teleport-network/teleport/x/xibc/types"

	"verif/harness/kit"
	"verif/harness/rec"
)

const ruleGenesis = "GenesisState values of xibc (clients of the 4 types, consensus states, metadata, relayers, packet acks/commitments/receipts/sequences), aggregate " +
	"(params, token pairs) and rvesting (params, funding account, initial reward) built field-wise with boundary values, JSON-encoded, filtered by the module's own " +
	"ValidateGenesis; InitGenesis of the module (cache branch of a running app, and a whole fresh InitChain for a share of the cases) followed by the application's " +
	"EndBlocker/BeginBlocker and one generated proposal must not panic; non-trivial = accepted by ValidateGenesis with >= 1 boundary field; distinct by (module, boundary fields)"

// clientGenesis draws an xibc client-submodule genesis state for the given chain names.
func (g *tagger) clientGenesis(names []string, native string, withRelayers bool) clienttypes.GenesisState {
	gs := clienttypes.GenesisState{NativeChainName: native}
	for _, name := range names {
		kind := rapid.SampledFrom(clientKinds).Draw(g.t, "gen.clientKind")
		cs := g.clientState(kind)
		any := mustAny(cs.(proto.Message))
		if g.edge("gen.clientAny", 2) {
			switch g.pick("gen.clientAny.edge", 2) {
			case 0:
				any = nil
				g.tag("gen.client=nilAny")
			default:
				any = mustAny(g.consState(kind).(proto.Message))
				g.tag("gen.client=wrongInterface")
			}
		}
		gs.Clients = append(gs.Clients, clienttypes.IdentifiedClientState{ChainName: name, ClientState: any})
		nCons := rapid.IntRange(0, 3).Draw(g.t, "gen.nCons")
		if kind == exported.ETH && !chance(g.t, "gen.ethCons", 8) {
			// constructive: on the pinned tree ETH ConsensusState.ClientType() answers "bsc", so genesis validation rejects every
			// ETH client that comes with consensus states (the type-agreement check); keep most ETH clients without them
			nCons = 0
		}
		var cons []clienttypes.ConsensusStateWithHeight
		for i := 0; i < nCons; i++ {
			ck := kind
			if g.edge("gen.consKind", 3) {
				ck = rapid.SampledFrom(clientKinds).Draw(g.t, "gen.consOther")
				if ck != kind {
					g.tag("gen.cons=otherType")
				}
			}
			h := g.height("gen.consHeight", clienttypes.NewHeight(0, uint64(100+i)), 15, false)
			var cAny *codectypes.Any = mustAny(g.consState(ck).(proto.Message))
			if g.edge("gen.consAny", 1) {
				cAny = nil
				g.tag("gen.cons=nilAny")
			}
			cons = append(cons, clienttypes.ConsensusStateWithHeight{Height: h, ConsensusState: cAny})
		}
		if nCons > 0 {
			gs.ClientsConsensus = append(gs.ClientsConsensus, clienttypes.ClientConsensusStates{ChainName: name, ConsensusStates: cons})
		}
		nMeta := rapid.IntRange(0, 2).Draw(g.t, "gen.nMeta")
		var md []clienttypes.GenesisMetadata
		for i := 0; i < nMeta; i++ {
			keys := []string{"recentSingers/0-5", "recentSingers", "recentSingers/x", "pendingValidators", host.KeyClientState, "consensusStates/\x00\x00\x00\x00\x00\x00\x00\x00\x00\x00\x00\x00\x00\x00\x00\x05/processedTime",
				"consensusStates/short", "iterateConsensusStates/x", "ethHeaderIndex/x", "ethRootMain/x", "consensusStates/\x00\x00\x00\x00\x00\x00\x00\x00\x00\x00\x00\x00\x00\x00\x00\x05", ""}
			ki := g.pick2("gen.metaKey", len(keys)-1, 1)
			if (ki == 1 || ki == 6) && listed("bsc-upgrade-malformed-store-key") && kind == "bsc" {
				g.excluded["bsc-upgrade-malformed-store-key"]++
				ki = 0
			}
			g.tag("gen.metaKey=" + []string{"signer", "signerNoSlash", "signerBadHeight", "pendingValidators", "clientStateKey", "processedTime", "consShort", "iterKey", "ethIndex", "ethRoot", "consStateKey", "empty"}[ki])
			val := g.edgeBytes("gen.metaValue", 8, 6)
			md = append(md, clienttypes.GenesisMetadata{Key: []byte(keys[ki]), Value: val})
		}
		if nMeta > 0 {
			gs.ClientsMetadata = append(gs.ClientsMetadata, clienttypes.IdentifiedGenesisMetadata{ChainName: name, Metadata: md})
		}
	}
	if g.edge("gen.orphan", 2) {
		gs.ClientsConsensus = append(gs.ClientsConsensus, clienttypes.ClientConsensusStates{ChainName: "orphan-chain"})
		g.tag("gen.cons=orphanChain")
	}
	if g.edge("gen.dupClient", 5) && len(gs.Clients) > 0 {
		gs.Clients = append(gs.Clients, gs.Clients[0])
		g.tag("gen.clients=duplicateName")
	}
	if withRelayers {
		n := rapid.IntRange(0, 2).Draw(g.t, "gen.nRelayers")
		for i := 0; i < n; i++ {
			addr := g.bech32Address("gen.relayer.address", 40)
			if addr == "" && listed("xibc-genesis-relayer-empty-address") {
				g.excluded["xibc-genesis-relayer-empty-address"]++
				g.tags = g.tags[:len(g.tags)-1]
				addr = kit.NewAccount([]byte{'a', 0}).Acc.String()
			}
			ir := clienttypes.IdentifiedRelayer{Address: addr, Chains: []string{"bsc-test"}, Addresses: []string{"0x1111111111111111111111111111111111111111"}}
			if g.edge("gen.relayer.shape", 35) {
				switch g.pick("gen.relayer.shape.edge", 4) {
				case 0:
					ir.Addresses = nil
					g.tag("gen.relayer=noAddresses")
				case 1:
					ir.Chains = []string{"", "a/b", strings.Repeat("x", 300)}
					g.tag("gen.relayer=invalidChains")
				case 2:
					ir.Chains, ir.Addresses = nil, nil
					g.tag("gen.relayer=empty")
				default:
					ir.Chains = append(ir.Chains, ir.Chains[0])
					g.tag("gen.relayer=duplicateChain")
				}
			}
			gs.Relayers = append(gs.Relayers, ir)
		}
	}
	if g.edge("gen.native", 8) {
		ns := []string{"other-chain", strings.Repeat("n", 64), "ab", "", "a/b"}
		i := g.pick2("gen.native.edge", 2, 3)
		gs.NativeChainName = ns[i]
		g.tag("gen.native=" + []string{"other", "len64", "tooShort", "empty", "slash"}[i])
	}
	return gs
}

func (g *tagger) packetState(name string) packettypes.PacketState {
	ps := packettypes.PacketState{SrcChain: "teleport_9000-1", DstChain: "bsc-test", Sequence: uint64(rapid.IntRange(1, 5).Draw(g.t, name+".seq")), Data: g.bytesN(name+".data", 32)}
	if g.edge(name+".seq", 10) {
		ss := []uint64{^uint64(0), 1 << 63, 1 << 32, 0}
		ps.Sequence = ss[g.pick2(name+".seq.edge", 3, 1)]
		g.tag(name + ".seq=" + u64class(ps.Sequence))
	}
	if g.edge(name+".data", 8) {
		ps.Data = g.edgeBytes(name+".data", 32, 100)
	}
	if g.edge(name+".chains", 12) {
		cs := []string{"clientState", strings.Repeat("n", 64), "sequences", "ab", "", "a/b"}
		i := g.pick2(name+".chains.edge", 3, 3)
		if rapid.Bool().Draw(g.t, name+".srcOrDst") {
			ps.SrcChain = cs[i]
		} else {
			ps.DstChain = cs[i]
		}
		g.tag(name + ".chain=" + []string{"keyword", "len64", "keyword", "tooShort", "empty", "slash"}[i])
	}
	return ps
}

func (g *tagger) packetGenesis() packettypes.GenesisState {
	gs := packettypes.GenesisState{}
	for i, n := 0, rapid.IntRange(0, 2).Draw(g.t, "pkt.nAcks"); i < n; i++ {
		gs.Acknowledgements = append(gs.Acknowledgements, g.packetState("pkt.ack"))
	}
	for i, n := 0, rapid.IntRange(0, 2).Draw(g.t, "pkt.nCommits"); i < n; i++ {
		gs.Commitments = append(gs.Commitments, g.packetState("pkt.commitment"))
	}
	for i, n := 0, rapid.IntRange(0, 2).Draw(g.t, "pkt.nReceipts"); i < n; i++ {
		gs.Receipts = append(gs.Receipts, g.packetState("pkt.receipt"))
	}
	for i, n := 0, rapid.IntRange(0, 2).Draw(g.t, "pkt.nSeqs"); i < n; i++ {
		p := g.packetState("pkt.sendSeq")
		gs.SendSequences = append(gs.SendSequences, packettypes.PacketSequence{SrcChain: p.SrcChain, DstChain: p.DstChain, Sequence: p.Sequence})
	}
	if g.edge("pkt.duplicates", 10) && len(gs.Commitments) > 0 {
		gs.Commitments = append(gs.Commitments, gs.Commitments[0])
		g.tag("pkt.commitments=duplicate")
	}
	return gs
}

func (g *tagger) aggregateGenesis(w *world) aggregatetypes.GenesisState {
	gs := aggregatetypes.GenesisState{Params: aggregatetypes.Params{EnableAggregate: rapid.Bool().Draw(g.t, "agg.enable"), EnableEVMHook: rapid.Bool().Draw(g.t, "agg.hook")}}
	denoms := []string{"acoin", "bcoin", "nosupply", "aggregate/" + w.tokFree.Hex(), "ibc/27394FB092D2ECCD56123C74F36E4C1F926001CEADA9CA97EA622B25F41E5EB2", strings.Repeat("d", 128)}
	n := rapid.IntRange(0, 3).Draw(g.t, "agg.nPairs")
	first := rapid.IntRange(0, len(denoms)-1).Draw(g.t, "agg.firstDenom")
	seenAddr := map[string]bool{}
	for i := 0; i < n; i++ {
		p := aggregatetypes.TokenPair{ERC20Address: g.hexAddress("agg.pair.erc20", w), Enabled: rapid.Bool().Draw(g.t, "agg.pair.enabled"),
			ContractOwner: aggregatetypes.Owner(rapid.IntRange(0, 2).Draw(g.t, "agg.pair.owner"))}
		if seenAddr[strings.ToLower(p.ERC20Address)] && !g.edge("agg.pair.duplicateERC20", 10) {
			// constructive: distinct contracts unless the duplicate is drawn on purpose (negative control)
			p.ERC20Address = kit.NewAccount([]byte{'p', byte(i)}).Addr.Hex()
		}
		seenAddr[strings.ToLower(p.ERC20Address)] = true
		nd := rapid.IntRange(1, 3).Draw(g.t, "agg.pair.nDenoms")
		// constructive: the first denominations of the pairs are distinct (a repeated one is rejected by Validate)
		p.Denoms = append(p.Denoms, denoms[(first+i)%len(denoms)])
		if i > 0 && g.edge("agg.pair.duplicateFirstDenom", 8) {
			p.Denoms[0] = denoms[first]
			g.tag("agg.pair.denoms=duplicateFirst")
		}
		for j := 1; j < nd; j++ {
			p.Denoms = append(p.Denoms, rapid.SampledFrom(denoms).Draw(g.t, "agg.pair.denom"))
		}
		if nd > 1 {
			g.tag("agg.pair.denoms=several")
		}
		if g.edge("agg.pair.shape", 20) {
			switch g.pick2("agg.pair.shape.edge", 2, 2) {
			case 0:
				p.ContractOwner = aggregatetypes.Owner(99)
				g.tag("agg.pair.owner=99")
			case 1:
				p.Denoms = append(p.Denoms, p.Denoms[0])
				g.tag("agg.pair.denoms=duplicateWithin")
			case 2:
				p.Denoms = nil
				g.tag("agg.pair.denoms=none")
			default:
				p.Denoms = append(p.Denoms, "ab")
				g.tag("agg.pair.denoms=invalidTail")
			}
		}
		gs.TokenPairs = append(gs.TokenPairs, p)
	}
	return gs
}

func (g *tagger) rewardCoins(name string) sdk.Coins {
	n := rapid.IntRange(1, 3).Draw(g.t, name+".n")
	var cs sdk.Coins
	valid := []string{"atele", "acoin", "bcoin", "zzz"}
	for i := 0; i < n; i++ {
		c := sdk.Coin{Denom: valid[(i+rapid.IntRange(0, 3).Draw(g.t, name+".denom"))%4], Amount: sdk.NewInt(int64(rapid.IntRange(0, 2000).Draw(g.t, name+".amount")))}
		if g.edge(name+".denomEdge", 25) {
			ds := []string{"ab", "A", "1abc", "a b", strings.Repeat("d", 128), strings.Repeat("d", 129), "ü88", "ibc/27394FB092D2ECCD56123C74F36E4C1F926001CEADA9CA97EA622B25F41E5EB2", "", "UPPER"}
			cl := []string{"invalid", "invalid", "invalid", "invalid", "len128", "invalid", "invalid", "ibc", "empty", "upper"}
			j := g.pick(name+".denomEdge.edge", len(ds))
			if cl[j] == "invalid" && listed("rvesting-reward-invalid-denom") {
				g.excluded["rvesting-reward-invalid-denom"]++
			} else {
				c.Denom = ds[j]
				g.tag(name + ".denom=" + cl[j])
			}
		}
		if g.edge(name+".amountEdge", 25) {
			switch g.pick(name+".amountEdge.edge", 5) {
			case 0:
				c.Amount = sdk.ZeroInt()
				g.tag(name + ".amount=0")
			case 1:
				c.Amount = sdk.NewInt(-1)
				g.tag(name + ".amount=negative")
			case 2:
				c.Amount = sdk.NewIntWithDecimal(1, 70)
				g.tag(name + ".amount=10^70")
			case 3:
				c.Amount = sdk.Int{}
				g.tag(name + ".amount=nil")
			default:
				c.Amount = sdk.NewInt(1)
				g.tag(name + ".amount=1")
			}
		}
		cs = append(cs, c)
	}
	if g.edge(name+".shape", 20) {
		switch g.pick(name+".shape.edge", 3) {
		case 0:
			cs = sdk.Coins{}
			g.tag(name + "=empty")
		case 1:
			cs = append(cs, cs[0])
			g.tag(name + "=duplicate")
		default:
			cs = nil
			g.tag(name + "=nil")
		}
	}
	return cs
}

func (g *tagger) rvestingGenesis(w *world) (gs rvestingtypes.GenesisState, crossModuleInconsistent bool) {
	gs.Params.EnableVesting = chance(g.t, "rv.enable", 60)
	gs.Params.PerBlockReward = g.rewardCoins("rv.reward")
	if !gs.Params.EnableVesting && listed("rvesting-genesis-disabled-reward") {
		// the listed finding: reward validation is skipped when vesting is disabled; keep only rewards the param validation accepts
		if rvestingRewardInvalid(gs.Params.PerBlockReward) {
			g.excluded["rvesting-genesis-disabled-reward"]++
			gs.Params.PerBlockReward = sdk.NewCoins(sdk.NewInt64Coin("acoin", 5))
		}
	}
	funded := w.c.Accounts[1]
	switch rapid.IntRange(0, 5).Draw(g.t, "rv.from") {
	case 0, 1:
		// no funding account
		if g.edge("rv.initRewardIgnored", 30) {
			gs.InitReward = sdk.Coins{{Denom: "x", Amount: sdk.NewInt(-5)}}
			g.tag("rv.initReward=invalidButIgnored")
		}
	case 2, 3:
		gs.From = funded.Acc.String()
		bal := w.c.App.BankKeeper.GetAllBalances(w.c.Ctx(), funded.Acc)
		switch rapid.IntRange(0, 4).Draw(g.t, "rv.initReward") {
		case 0:
			gs.InitReward = bal
			g.tag("rv.initReward=wholeBalance")
		case 1:
			gs.InitReward = sdk.NewCoins()
			g.tag("rv.initReward=empty")
		case 2:
			gs.InitReward = sdk.NewCoins(sdk.NewInt64Coin("acoin", 1000001))
			g.tag("rv.initReward=balance+1")
			crossModuleInconsistent = true
		case 3:
			gs.InitReward = sdk.Coins{sdk.NewInt64Coin("bcoin", 1), sdk.NewInt64Coin("acoin", 1)}
			g.tag("rv.initReward=unsorted")
		default:
			gs.InitReward = sdk.NewCoins(sdk.NewInt64Coin("acoin", 10), sdk.NewInt64Coin("bcoin", 7))
		}
	case 4:
		gs.From = authtypes.NewModuleAddress(authtypes.FeeCollectorName).String()
		gs.InitReward = sdk.NewCoins()
		g.tag("rv.from=moduleAccount")
	default:
		gs.From = g.bech32Address("rv.from", 100)
		gs.InitReward = sdk.NewCoins(sdk.NewInt64Coin("acoin", 1))
		crossModuleInconsistent = true // an account drawn here holds nothing
	}
	return
}

// rvestingRewardInvalid re-states the documented contract of the per-block reward (non-empty, non-empty denominations,
// non-negative amounts, no duplicates) for the exclusion of the listed genesis finding only.
func rvestingRewardInvalid(cs sdk.Coins) bool {
	if len(cs) == 0 {
		return true
	}
	seen := map[string]bool{}
	for _, c := range cs {
		if c.Denom == "" || c.Amount.IsNil() || c.Amount.IsNegative() || seen[c.Denom] {
			return true
		}
		seen[c.Denom] = true
	}
	return false
}

var digits = regexp.MustCompile(`[0-9]+`)

// reasonClass abbreviates a validation error to a coarse class (for the label histogram only).
func reasonClass(err error) string {
	s := err.Error()
	for _, cut := range []string{"{", "[", "\""} {
		if i := strings.Index(s, cut); i > 12 {
			s = s[:i]
		}
	}
	if i := strings.Index(s, ":"); i > 12 {
		s = s[:i]
	}
	w := strings.Fields(digits.ReplaceAllString(s, "N"))
	if len(w) > 5 {
		w = w[:5]
	}
	return strings.Join(w, " ")
}

// xibcGenesisJSON renders an xibc genesis (client part given, packet part empty).
func xibcGenesisJSON(w *world, cg clienttypes.GenesisState) []byte {
	gs := xibctypes.GenesisState{ClientGenesis: cg, PacketGenesis: packettypes.DefaultGenesisState()}
	bz, err := w.c.App.AppCodec().MarshalJSON(&gs)
	kit.Must(err, "marshal xibc genesis")
	return bz
}

type genesisLog struct {
	Module  string   `json:"module"`
	Tags    []string `json:"boundary_fields"`
	Filter  string   `json:"validation"`
	Mode    string   `json:"mode,omitempty"`
	Genesis string   `json:"genesis,omitempty"`
}

func runGenesisCase(t *rapid.T, r *rec.Recorder) {
	w := baseWorld()
	a := w.c.App
	cdc := a.AppCodec()
	g := newTagger(t)
	g.rejPct = 5 // a genesis state is a conjunction of many values: keep the negative controls rare so that well over half pass
	module := rapid.SampledFrom([]string{host.ModuleName, host.ModuleName, aggregatetypes.ModuleName, rvestingtypes.ModuleName}).Draw(t, "module")
	var msg proto.Message
	inconsistent := false
	switch module {
	case host.ModuleName:
		var names []string
		for _, n := range chainNames[:6] {
			if chance(t, "client?", 25) {
				names = append(names, n)
			}
		}
		msg = &xibctypes.GenesisState{ClientGenesis: g.clientGenesis(names, w.c.ChainID, true), PacketGenesis: g.packetGenesis()}
	case aggregatetypes.ModuleName:
		gs := g.aggregateGenesis(w)
		msg = &gs
	default:
		gs, inc := g.rvestingGenesis(w)
		inconsistent = inc
		msg = &gs
	}
	for k, n := range g.excluded {
		for i := 0; i < n; i++ {
			r.Exclude(k)
		}
	}
	log := genesisLog{Module: module, Tags: g.sortedTags()}
	r.Label("generated:" + module)
	var bz []byte
	var err error
	if p := guard(func() { bz, err = cdc.MarshalJSON(msg) }); p != nil || err != nil {
		r.Label("filter:unencodable:" + module)
		r.Case("", false, nil)
		return
	}
	log.Genesis = clip(string(bz), 1800)
	if p := guard(func() {
		switch module {
		case host.ModuleName:
			err = xibcmodule.AppModuleBasic{}.ValidateGenesis(cdc, nil, bz)
		case aggregatetypes.ModuleName:
			err = aggregatemodule.AppModuleBasic{}.ValidateGenesis(cdc, nil, bz)
		default:
			err = rvestingmodule.AppModuleBasic{}.ValidateGenesis(cdc, nil, bz)
		}
	}); p != nil {
		r.Label("filter:rejected(validation panicked):" + module)
		r.Case("", false, nil)
		return
	}
	if err != nil {
		r.Label("filter:rejected:" + module)
		r.Label("reject-reason:" + module + ":" + reasonClass(err))
		r.Case("", false, nil)
		return
	}
	r.Label("filter:accepted:" + module)
	if inconsistent {
		// assumption (plan.json): the funding account of the rvesting genesis holds the initial reward; no per-module
		// stateless validation can see bank balances, and the Cosmos SDK convention is to abort InitChain on such cross-module mismatches
		r.Label("skipped:rvesting funding account lacks the initial reward (cross-module inconsistency)")
		r.Case("", false, nil)
		return
	}
	log.Filter = "accepted"
	fullInit := chance(t, "fullInitChain", 8)
	if fullInit {
		log.Mode = "fresh InitChain"
		if p := guard(func() {
			kit.NewChain("teleport_9000-1", kit.ChainOpts{Seed: []byte("c15"), ExtraCoins: worldCoins(),
				GenesisMutator: func(_ *app.Teleport, gm map[string]json.RawMessage) { gm[module] = bz }})
		}); p != nil {
			t.Fatalf("InitChain / first blocks panicked on a %s genesis that passed ValidateGenesis: %s\nboundary=%v\ngenesis=%s", module, p, log.Tags, log.Genesis)
		}
		r.Label("initchain:" + module)
	} else {
		log.Mode = "InitGenesis on a branch"
		ctx, _ := w.c.Ctx().CacheContext()
		if p := guard(func() {
			switch module {
			case host.ModuleName:
				xibcmodule.NewAppModule(a.XIBCKeeper).InitGenesis(ctx, cdc, bz)
			case aggregatetypes.ModuleName:
				aggregatemodule.NewAppModule(*a.AggregateKeeper, a.AccountKeeper).InitGenesis(ctx, cdc, bz)
			default:
				rvestingmodule.NewAppModule(a.RVestingKeeper).InitGenesis(ctx, cdc, bz)
			}
		}); p != nil {
			t.Fatalf("InitGenesis panicked on a %s genesis that passed ValidateGenesis: %s\nboundary=%v\ngenesis=%s", module, p, log.Tags, log.Genesis)
		}
		r.Label("initgenesis:" + module)
		blocksAfter(t, r, w, ctx, "genesis:"+module, log)
		// one generated proposal on the imported state
		if module != rvestingtypes.ModuleName && rapid.Bool().Draw(t, "followUp") {
			history := []stepLog{{Kind: "genesis:" + module, Tags: log.Tags}}
			gc := genProposal(t, w, existingClients(w, ctx))
			execStep(t, rec.For("TestC15_Genesis/followUp", ruleProposals), w, []sdk.Context{ctx}, gc, &history)
		}
	}
	shape := fmt.Sprintf("%s|%v", module, log.Tags)
	r.Case(shape, boundaryCount(log.Tags) > 0, func() interface{} { return log })
}

func TestC15_Genesis(t *testing.T) {
	r := rec.For("TestC15_Genesis", ruleGenesis)
	rapid.Check(t, func(t *rapid.T) { runGenesisCase(t, r) })
}
