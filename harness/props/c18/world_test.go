package c18

// The lifecycle world: one real chain, proposals executed the way gov.EndBlocker executes them,
// updates through DeliverTx, and the oracle of property C18.

import (
	"bytes"
	"encoding/binary"
	"fmt"
	"math/big"
	"regexp"
	"sort"
	"strings"
	"time"

	"github.com/gogo/protobuf/proto"
	"pgregory.net/rapid"

	govtypes "github.com/cosmos/cosmos-sdk/x/gov/types"
	"github.com/tendermint/tendermint/crypto/tmhash"
	tmtypes "github.com/tendermint/tendermint/types"

	bsctypes "github.com/teleport-network/teleport/x/xibc/clients/light-clients/bsc/types"
	tsstypes "github.com/teleport-network/teleport/x/xibc/clients/tss-client/types"
	xibcclient "github.com/teleport-network/teleport/x/xibc/core/client"
	clienttypes "github.com/teleport-network/teleport/x/xibc/core/client/types"
	"github.com/teleport-network/teleport/x/xibc/exported"

	"verif/harness/kf"
	"verif/harness/kit"
	"verif/harness/rec"
	"verif/harness/sim/bscsim"
	"verif/harness/sim/ethsim"
	"verif/harness/sim/tmsim"
)

// Known-finding keys of C18.
const (
	kfToggleOld   = "toggle-initializes-old-client"
	kfTSSUpdate   = "tss-update-nil-height-panic"
	kfLeftover    = "toggle-leaves-old-consensus-states"
	kfTMUpgrade   = "tm-upgrade-no-consensus-metadata"
	kfWrongCons   = "wrong-consensus-type-accepted"
	propertyID    = "C18"
	chainIDOfTest = "teleport_9000-1"
)

type stepLog struct {
	Op     string      `json:"op"`
	Name   string      `json:"name,omitempty"`
	Arg    interface{} `json:"arg,omitempty"`
	Result string      `json:"result,omitempty"`
}

// client is the harness's record of what a chain name is expected to hold.
type client struct {
	name        string
	in          *inst // last successfully installed content (nil = no client)
	tainted     string
	tssCur      kit.Account // account currently authorised for a TSS client
	installedAt time.Time
	proofOK     bool // the proof at the installed height verified when the client was installed
	updates     int
}

type world struct {
	r       *rec.Recorder
	c       *kit.Chain
	handler govtypes.Handler

	relayer, tssA, tssB, outsider, relOther kit.Account
	reg                                     map[string][]string

	listed  map[string]bool
	log     []stepLog
	nameSeq int
	names   []string // chain names handed out so far
}

var (
	acctRelayer  = kit.NewAccount([]byte("c18-relayer"))
	acctTSSA     = kit.NewAccount([]byte("c18-tss-a"))
	acctTSSB     = kit.NewAccount([]byte("c18-tss-b"))
	acctOutsider = kit.NewAccount([]byte("c18-outsider"))
	acctRelOther = kit.NewAccount([]byte("c18-relayer-other"))
)

func newWorld(r *rec.Recorder) *world {
	w := &world{r: r, relayer: acctRelayer, tssA: acctTSSA, tssB: acctTSSB, outsider: acctOutsider, relOther: acctRelOther,
		reg: map[string][]string{}, listed: map[string]bool{}}
	w.c = kit.NewChain(chainIDOfTest, kit.ChainOpts{Seed: []byte("c18"), Accounts: []kit.Account{w.relayer, w.tssA, w.tssB, w.outsider, w.relOther}})
	w.handler = xibcclient.NewClientProposalHandler(w.c.App.XIBCKeeper.ClientKeeper)
	for _, k := range []string{kfToggleOld, kfTSSUpdate, kfLeftover, kfTMUpgrade, kfWrongCons} {
		w.listed[k] = kf.Listed(propertyID, k)
	}
	w.register(w.relOther, "some-other-chain")
	return w
}

func (w *world) logf(op, name string, arg interface{}, format string, a ...interface{}) {
	w.log = append(w.log, stepLog{Op: op, Name: name, Arg: arg, Result: fmt.Sprintf(format, a...)})
}

func (w *world) history() string {
	var b strings.Builder
	start := 0
	if len(w.log) > 40 {
		start = len(w.log) - 40
		fmt.Fprintf(&b, "  … %d earlier steps\n", start)
	}
	for i := start; i < len(w.log); i++ {
		s := w.log[i]
		fmt.Fprintf(&b, "  %d. %s %s %v -> %s\n", i+1, s.Op, s.Name, s.Arg, s.Result)
	}
	return b.String()
}

// tb is what the oracle needs from *rapid.T / *testing.T.
type tb interface {
	Fatalf(format string, args ...interface{})
}

func (w *world) fail(t tb, format string, a ...interface{}) {
	t.Fatalf("%s\nhistory:\n%s", fmt.Sprintf(format, a...), w.history())
}

// register adds chain to the chains acct is a registered relayer for.
func (w *world) register(acct kit.Account, chain string) {
	k := acct.Acc.String()
	for _, c := range w.reg[k] {
		if c == chain {
			return
		}
	}
	w.reg[k] = append(w.reg[k], chain)
	addrs := make([]string, len(w.reg[k]))
	for i := range addrs {
		addrs[i] = strings.ToLower(acct.Addr.String())
	}
	w.c.RegisterRelayer(acct.Acc, append([]string{}, w.reg[k]...), addrs)
}

// newClient prepares a chain name: the relayer and both TSS accounts are registered relayers for it.
func (w *world) newClient(name string) *client {
	w.register(w.relayer, name)
	w.register(w.tssA, name)
	w.register(w.tssB, name)
	return &client{name: name}
}

// ---------------------------------------------------------------------------------------------
// names

var refValidName = regexp.MustCompile(`^[a-zA-Z0-9._+\-#\[\]<>]+$`)

// nameValid is the reference for "valid chain name": 3..64 characters of alphanumerics and . _ + - # [ ] < >.
func nameValid(s string) bool { return len(s) >= 3 && len(s) <= 64 && refValidName.MatchString(s) }

var nameForms = []string{"chain-%d", "c%d", "x.y_%d", "[n]<%d>", "A+B#%d", "bsc-testnet-%d", "teleport_%d-1", strings.Repeat("l", 55) + "%d"}

func (w *world) freshName(t *rapid.T) string {
	w.nameSeq++
	n := fmt.Sprintf(rapid.SampledFrom(nameForms).Draw(t, "name_form"), 100+w.nameSeq)
	// chain names that begin with another chain's name ("eth" / "eth-ropsten"): one name in three is derived from a name
	// already in use, by cutting its tail off or by appending to it
	if len(w.names) > 0 && rapid.IntRange(0, 2).Draw(t, "name_related") == 0 {
		base := w.names[rapid.IntRange(0, len(w.names)-1).Draw(t, "name_base")]
		var alt string
		if rapid.Bool().Draw(t, "name_shorter") {
			alt = base[:len(base)-rapid.IntRange(1, 3).Draw(t, "name_cut")]
		} else {
			alt = base + rapid.SampledFrom([]string{"0", "-b", ".x", "#"}).Draw(t, "name_tail")
		}
		used := false
		for _, u := range w.names {
			used = used || u == alt
		}
		if !used && nameValid(alt) {
			n = alt
			w.r.Label("name_related_to_a_name_in_use")
		}
	}
	if !nameValid(n) {
		kit.Failf("generated name %q is not valid", n)
	}
	w.names = append(w.names, n)
	return n
}

func (w *world) badName(t *rapid.T) string {
	w.nameSeq++
	forms := []string{"", "  ", "ab", "a/b%d", "name with space %d", "semi;colon%d", "star*%d", "ünï%d", strings.Repeat("x", 62) + "%d", "tab\t%d", "q?%d"}
	f := rapid.SampledFrom(forms).Draw(t, "bad_name_form")
	n := f
	if strings.Contains(f, "%d") {
		n = fmt.Sprintf(f, 100+w.nameSeq)
	}
	if nameValid(n) {
		kit.Failf("generated bad name %q is valid", n)
	}
	return n
}

// ---------------------------------------------------------------------------------------------
// store access

func (w *world) xibc() kit.Dump { return w.c.DumpStores(w.c.Ctx(), "xibc") }

// clientKVs returns the entries under clients/<name>/ (keys relative to that prefix).
func clientKVs(d kit.Dump, name string) map[string][]byte {
	out := map[string][]byte{}
	p := []byte("clients/" + name + "/")
	for _, kv := range d["xibc"] {
		if bytes.HasPrefix(kv.K, p) {
			out[string(kv.K[len(p):])] = kv.V
		}
	}
	return out
}

// lowestConsensus returns the lowest (revision, height) a consensus state is stored under and its type URL.
func lowestConsensus(kvs map[string][]byte, w *world) (clienttypes.Height, string, bool) {
	var keys []string
	for k := range kvs {
		if strings.HasPrefix(k, "consensusStates/") && len(k) == len("consensusStates/")+16 {
			keys = append(keys, k)
		}
	}
	if len(keys) == 0 {
		return clienttypes.Height{}, "", false
	}
	sort.Strings(keys)
	k := keys[0]
	hb := []byte(k[len("consensusStates/"):])
	h := clienttypes.NewHeight(binary.BigEndian.Uint64(hb[:8]), binary.BigEndian.Uint64(hb[8:]))
	cons, err := clienttypes.UnmarshalConsensusState(w.c.App.AppCodec(), kvs[k])
	if err != nil {
		return h, "?", true
	}
	return h, proto.MessageName(cons.(proto.Message)), true
}

func (w *world) assertUnchanged(t tb, before kit.Dump, what string) {
	after := w.xibc()
	if before.Digest() != after.Digest() {
		w.fail(t, "%s changed the xibc store:\n%s", what, kit.DiffString(kit.Diff(before, after), 8))
	}
}

// ---------------------------------------------------------------------------------------------
// proposals and updates

type proposalResult struct {
	validateBasic error
	err           error
}

func (p proposalResult) ok() bool { return p.validateBasic == nil && p.err == nil }

func (p proposalResult) String() string {
	switch {
	case p.validateBasic != nil:
		return "ValidateBasic: " + firstLine(p.validateBasic.Error())
	case p.err != nil:
		return "handler: " + firstLine(p.err.Error())
	}
	return "ok"
}

func firstLine(s string) string {
	if i := strings.IndexByte(s, '\n'); i >= 0 {
		s = s[:i]
	}
	if len(s) > 220 {
		s = s[:220] + "…"
	}
	return s
}

func makeContent(action, name string, cs exported.ClientState, cons exported.ConsensusState) govtypes.Content {
	var c govtypes.Content
	var err error
	switch action {
	case "create":
		c, err = clienttypes.NewCreateClientProposal("t", "d", name, cs, cons)
	case "upgrade":
		c, err = clienttypes.NewUpgradeClientProposal("t", "d", name, cs, cons)
	case "toggle":
		c, err = clienttypes.NewToggleClientProposal("t", "d", name, cs, cons)
	default:
		kit.Failf("unknown action %s", action)
	}
	kit.Must(err, "pack proposal")
	return c
}

// propose runs a proposal content the way a passed governance proposal runs: only contents that
// pass ValidateBasic can be submitted at all; the handler runs in a cache context that is written
// only when it returns nil.
func (w *world) propose(t tb, content govtypes.Content) (res proposalResult) {
	// the way the content reaches the handler on a chain: it travels inside the submitting transaction (encoded, decoded
	// into a fresh object), stateless validation runs on that object, the same object is stored with the proposal (encoded
	// again) and the stored content is what the handler executes. The generator's own objects (the expectation) are never
	// handed to the code under test, so a validation that rewrote the content would show up as a mismatch.
	hop := func(in govtypes.Content) govtypes.Content {
		msg, ok := in.(proto.Message)
		if !ok {
			kit.Failf("content is no proto message")
		}
		bz, err := w.c.App.AppCodec().MarshalInterface(msg)
		kit.Must(err, "encode proposal content")
		var out govtypes.Content
		kit.Must(w.c.App.AppCodec().UnmarshalInterface(bz, &out), "decode proposal content")
		return out
	}
	content = hop(content)
	if err := content.ValidateBasic(); err != nil {
		return proposalResult{validateBasic: err}
	}
	content = hop(content)
	cacheCtx, write := w.c.Ctx().CacheContext()
	func() {
		defer func() {
			if p := recover(); p != nil {
				w.fail(t, "proposal handler panicked (a panic in gov's EndBlocker halts the chain): %v", p)
			}
		}()
		res.err = w.handler(cacheCtx, content)
	}()
	if res.err == nil {
		write()
	}
	return res
}

func (w *world) deliverUpdate(name string, h exported.Header, signer kit.Account) kit.TxResult {
	msg, err := clienttypes.NewMsgUpdateClient(name, h, signer.Acc)
	kit.Must(err, "NewMsgUpdateClient")
	return w.c.Deliver(signer, msg)
}

// authorised is the account whose updates must be accepted for cl.
func (w *world) authorised(cl *client) kit.Account {
	if cl.in.Typ == TSS {
		return cl.tssCur
	}
	return w.relayer
}

// nextHeader builds the next valid header for cl's client; commit() must be called once it was accepted.
func (w *world) nextHeader(t *rapid.T, cl *client) (h exported.Header, commit func(), desc string) {
	in := cl.in
	switch in.Typ {
	case TM:
		if last := in.tm.sim.Blocks[in.tm.sim.Last]; last.Time.Add(time.Second).After(w.c.Now) {
			w.c.Commit(time.Minute) // the simulated chain caught up with the local clock: let a block pass
		}
		msg, b := in.tmNext(t, w.c.Now)
		return msg, func() { in.tm.trusted = b.Height }, fmt.Sprintf("tm %d", b.Height)
	case BSC:
		nh := in.bsc.next(t)
		return nh.ToProto(), func() { in.bsc.head = nh }, fmt.Sprintf("bsc %d", nh.Number)
	case ETH:
		if in.eth.head.Time+16 > uint64(w.c.Now.Unix()) {
			w.c.Commit(time.Minute) // header times may not run more than 15 s ahead of the block time
		}
		nh := in.eth.next(t)
		return ethsim.ToProto(nh), func() { in.eth.head = nh }, fmt.Sprintf("eth %d", nh.Number.Uint64())
	case TSS:
		nxt := w.tssA
		if rapid.Bool().Draw(t, "tss_rotate") {
			nxt = w.tssB
		}
		parts := [][]byte{}
		for i := rapid.IntRange(0, 2).Draw(t, "tss_parts"); i > 0; i-- {
			parts = append(parts, rbytes(t, "tss_part", 33))
		}
		hd := &tsstypes.Header{TssAddress: nxt.Acc.String(), Pubkey: rbytes(t, "tss_pubkey", 33), PartPubkeys: parts, Threshold: uint64(rapid.IntRange(0, 3).Draw(t, "tss_threshold"))}
		return hd, func() { cl.tssCur = nxt; in.tss.addr = nxt }, "tss -> " + nxt.Acc.String()[:16]
	}
	kit.Failf("unknown type %s", in.Typ)
	return nil, nil, ""
}

// validUpdate delivers the next valid header from the authorised account; the property demands success.
func (w *world) validUpdate(t *rapid.T, cl *client, why string) {
	w.r.Step()
	h, commit, desc := w.nextHeader(t, cl)
	before := w.xibc()
	res := w.deliverUpdate(cl.name, h, w.authorised(cl))
	if !res.OK() {
		w.assertUnchanged(t, before, "rejected update")
		w.logf("update", cl.name, desc, "REJECTED: %s", firstLine(res.Log))
		w.fail(t, "a valid %s header (%s) from the authorised account was rejected (%s): %s", cl.in.Typ, desc, why, firstLine(res.Log))
	}
	commit()
	cl.updates++
	w.r.Label("update:valid:" + cl.in.Typ + ":accepted")
	w.logf("update", cl.name, desc, "ok")
}

// malformed returns a header that must not be accepted, derived from a valid next header that is
// NOT consumed (the valid one can still be delivered afterwards).
func (w *world) malformed(t *rapid.T, cl *client) (exported.Header, string) {
	in := cl.in
	wrongType := func() (exported.Header, string) {
		switch in.Typ {
		case TSS:
			return &bsctypes.Header{Height: clienttypes.NewHeight(0, 5), Extra: make([]byte, 97), UncleHash: bscsim.EmptyUncleHash.Bytes(), Difficulty: []byte{2}}, "header-of-other-type(bsc)"
		default:
			return &tsstypes.Header{TssAddress: w.tssA.Acc.String(), Pubkey: []byte("pk")}, "header-of-other-type(tss)"
		}
	}
	if rapid.IntRange(0, 5).Draw(t, "malformed_wrong_type") == 0 {
		return wrongType()
	}
	switch in.Typ {
	case TM:
		// build on a throw-away branch of the simulator state: tmsim cannot fork, so tamper a copy of the
		// last accepted block's successor shape instead: same heights, never signed by the validators
		s := in.tm
		prev := s.sim.Blocks[s.sim.Last]
		hdr := prev.Header
		hdr.Height = prev.Height + 1
		hdr.Time = prev.Time.Add(time.Second)
		hdr.ValidatorsHash = prev.NextVals.Hash()
		hdr.NextValidatorsHash = prev.NextVals.Hash()
		hdr.AppHash = rbytes(t, "tm_bad_apphash", 32)
		kind := rapid.SampledFrom([]string{"unsigned", "signed-other-chain", "tampered-after-signing", "unknown-trusted-height"}).Draw(t, "tm_malformed")
		modes := make([]tmsim.SigMode, len(prev.NextVals.Validators))
		for i := range modes {
			switch kind {
			case "unsigned":
				modes[i] = tmsim.SigAbsent
			case "signed-other-chain":
				modes[i] = tmsim.SigOtherChain
			default:
				modes[i] = tmsim.SigCommit
			}
		}
		commit := s.sim.MakeCommit(&hdr, prev.NextVals, tmsim.CommitSpec{Parts: partSet(), Modes: modes, SigTime: hdr.Time})
		trusted := clienttypes.NewHeight(s.rev, uint64(prev.Height))
		if kind == "unknown-trusted-height" {
			trusted.RevisionHeight += 1_000_000
		}
		msg := tmsim.Assemble(&hdr, commit, prev.NextVals, trusted, prev.NextVals)
		if kind == "tampered-after-signing" {
			bad := append([]byte{}, msg.SignedHeader.Header.AppHash...)
			bad[rapid.IntRange(0, len(bad)-1).Draw(t, "tm_tamper_byte")] ^= 0x01
			msg.SignedHeader.Header.AppHash = bad
		}
		return msg, "tm:" + kind
	case BSC:
		s := in.bsc
		h := s.next(t)
		kind := rapid.SampledFrom([]string{"sealed-by-outsider", "wrong-parent", "number-skips", "wrong-difficulty", "short-extra", "seal-garbled"}).Draw(t, "bsc_malformed")
		switch kind {
		case "sealed-by-outsider":
			h.Coinbase = s.outsider.Addr
			bscsim.Seal(h, s.outsider, s.chainID)
		case "wrong-parent":
			h.ParentHash = rhash(t, "bsc_bad_parent")
			bscsim.Seal(h, s.sealer(h.Number), s.chainID)
		case "number-skips":
			h.Number++
			s.fill(t, h)
		case "wrong-difficulty":
			h.Difficulty = new(big.Int).Set(bscsim.DiffNoTurn)
			bscsim.Seal(h, s.sealer(h.Number), s.chainID)
		case "short-extra":
			h.Extra = h.Extra[:40]
		case "seal-garbled":
			h.Extra[len(h.Extra)-10] ^= 0x55
		}
		return h.ToProto(), "bsc:" + kind
	case ETH:
		s := in.eth
		h := s.next(t)
		kind := rapid.SampledFrom([]string{"wrong-parent", "time-not-after-parent", "far-future", "base-fee-off", "gas-used-above-limit", "number-skips"}).Draw(t, "eth_malformed")
		switch kind {
		case "wrong-parent":
			h.ParentHash = rhash(t, "eth_bad_parent")
		case "time-not-after-parent":
			h.Time = s.head.Time
		case "far-future":
			h.Time = uint64(w.c.Now.Unix()) + 3600
		case "base-fee-off":
			h.BaseFee = new(big.Int).Add(h.BaseFee, big.NewInt(1))
		case "gas-used-above-limit":
			h.GasUsed = h.GasLimit + 1
		case "number-skips":
			h.Number = new(big.Int).Add(h.Number, big.NewInt(1))
		}
		return ethsim.ToProto(h), "eth:" + kind
	case TSS:
		return &tsstypes.Header{TssAddress: "not-a-bech32-address", Pubkey: []byte("pk")}, "tss:bad-address"
	}
	kit.Failf("unknown type %s", in.Typ)
	return nil, ""
}

// invalidUpdate delivers an update that the property does not require to succeed (malformed
// header, or not from the authorised account). Whatever fails must leave the xibc store unchanged.
// Returns false when the update was (unexpectedly) accepted: the client is then out of step with its simulator.
func (w *world) invalidUpdate(t *rapid.T, cl *client) bool {
	w.r.Step()
	var h exported.Header
	var kind string
	signer := w.authorised(cl)
	switch rapid.IntRange(0, 3).Draw(t, "invalid_update_kind") {
	case 0: // valid header, wrong account
		h, _, _ = w.nextHeaderPeek(t, cl)
		cands := []kit.Account{w.outsider, w.relOther}
		names := []string{"outsider", "relayer-of-other-chain"}
		if cl.in.Typ == TSS {
			cands = append(cands, w.relayer)
			names = append(names, "relayer-not-tss-account")
			other := w.tssA
			if cl.tssCur.Acc.Equals(w.tssA.Acc) {
				other = w.tssB
			}
			cands = append(cands, other)
			names = append(names, "other-tss-account")
		}
		i := rapid.IntRange(0, len(cands)-1).Draw(t, "unauthorised_signer")
		signer, kind = cands[i], "unauthorised:"+names[i]
	default:
		h, kind = w.malformed(t, cl)
	}
	before := w.xibc()
	res := w.deliverUpdate(cl.name, h, signer)
	if res.OK() {
		// not C18's clause (C06 / C07 / C09 / C10 judge acceptance); recorded, and the history ends here
		w.r.Label("update:invalid:" + kind + ":ACCEPTED")
		w.logf("update", cl.name, kind, "ACCEPTED (not judged by C18)")
		cl.tainted = "an invalid update (" + kind + ") was accepted"
		return false
	}
	w.assertUnchanged(t, before, "rejected update ("+kind+")")
	w.r.Label("update:invalid:" + kind + ":rejected,unchanged")
	w.logf("update", cl.name, kind, "rejected, unchanged: %s", firstLine(res.Log))
	return true
}

// nextHeaderPeek builds a valid next header without consuming it. tmsim chains cannot be rolled
// back, so for Tendermint the peeked header is a never-produced sibling (valid only as far as the
// signer check, which rejects first).
func (w *world) nextHeaderPeek(t *rapid.T, cl *client) (exported.Header, func(), string) {
	if cl.in.Typ == TM {
		s := cl.in.tm
		prev := s.sim.Blocks[s.sim.Last]
		hdr := prev.Header
		hdr.Height = prev.Height + 1
		hdr.Time = prev.Time.Add(time.Second)
		hdr.ValidatorsHash = prev.NextVals.Hash()
		hdr.NextValidatorsHash = prev.NextVals.Hash()
		modes := make([]tmsim.SigMode, len(prev.NextVals.Validators))
		for i := range modes {
			modes[i] = tmsim.SigCommit
		}
		commit := s.sim.MakeCommit(&hdr, prev.NextVals, tmsim.CommitSpec{Parts: partSet(), Modes: modes, SigTime: hdr.Time})
		return tmsim.Assemble(&hdr, commit, prev.NextVals, clienttypes.NewHeight(s.rev, uint64(prev.Height)), prev.NextVals), func() {}, "tm sibling"
	}
	return w.nextHeader(t, cl)
}

// ---------------------------------------------------------------------------------------------
// the oracle for an installed client

// expectedMeta lists the entries the client type of in must have written when it was installed at block time bt.
func (w *world) expectedMeta(in *inst, bt time.Time) []metaKV {
	switch in.Typ {
	case TM:
		pt := make([]byte, 8)
		binary.BigEndian.PutUint64(pt, uint64(bt.UnixNano()))
		return []metaKV{
			{consKey(in.Height) + "/processedTime", pt, "processed time of the installed height = block time of the proposal"},
			{"iterateConsensusStates" + string(heightKey(in.Height)), []byte(consKey(in.Height)), "iteration key of the installed height"},
		}
	case BSC:
		g := in.bsc.genesis
		vs := &bsctypes.ValidatorSet{}
		for _, a := range in.bsc.nextVals {
			vs.Validators = append(vs.Validators, a.Bytes())
		}
		bz, err := proto.Marshal(vs)
		kit.Must(err, "marshal validator set")
		return []metaKV{
			{"recentSingers/" + in.Height.String(), g.Coinbase.Bytes(), "recent-signer record of the installed header's sealer"},
			{"pendingValidators", bz, "validator set announced by the installed (epoch) header"},
		}
	case ETH:
		g := in.eth.genesis
		hp := ethsim.ToProto(g)
		bz, err := w.c.App.AppCodec().MarshalInterface(hp)
		kit.Must(err, "marshal eth header")
		n := g.Number.Uint64()
		idx := fmt.Sprintf("ethHeaderIndex/%s%d", g.Hash().Hex(), n)
		return []metaKV{
			{idx, bz, "header record of the installed header (by hash and number)"},
			{fmt.Sprintf("ethRootMain/%s%d", g.Root.Hex(), n), []byte(idx), "main-chain root record pointing at the installed header"},
		}
	}
	return nil
}

type followResult struct {
	meta, active, proof, updated bool
	skipped                      []string
}

// checkStored is clause B: the stored client state and the consensus state at the installed height are the proposal's.
func (w *world) checkStored(t tb, cl *client, what string) {
	in := cl.in
	kvs := clientKVs(w.xibc(), cl.name)
	cdc := w.c.App.AppCodec()
	bz, ok := kvs["clientState"]
	if !ok {
		w.fail(t, "%s succeeded but no client state is stored under %q", what, cl.name)
	}
	got, err := clienttypes.UnmarshalClientState(cdc, bz)
	if err != nil {
		w.fail(t, "%s: stored client state does not decode: %v", what, err)
	}
	if !protoEqual(got.(proto.Message), in.CS.(proto.Message)) {
		w.fail(t, "%s: stored client state differs from the proposal's\n stored:   %v\n proposed: %v", what, got, in.CS)
	}
	cbz, ok := kvs[consKey(in.Height)]
	if !ok {
		if in.Typ == TSS {
			// A TSS consensus state is an empty message stored under height 0-0 that no TSS code path reads;
			// CreateClient deliberately skips storing it. Tolerated (see plan.json assumptions).
			w.r.Label("stored:tss-consensus-state-absent")
			return
		}
		w.fail(t, "%s succeeded but no consensus state is stored at the installed height %s", what, in.Height)
	}
	gc, err := clienttypes.UnmarshalConsensusState(cdc, cbz)
	if err != nil {
		w.fail(t, "%s: stored consensus state does not decode: %v", what, err)
	}
	if !protoEqual(gc.(proto.Message), in.Cons.(proto.Message)) {
		w.fail(t, "%s: stored consensus state at %s differs from the proposal's\n stored:   %v\n proposed: %v", what, in.Height, gc, in.Cons)
	}
}

// protoEqual: same message type and the same canonical encoding (gogoproto's proto.Equal panics on custom field types).
func protoEqual(a, b proto.Message) bool {
	if proto.MessageName(a) != proto.MessageName(b) {
		return false
	}
	x, err := proto.Marshal(a)
	kit.Must(err, "marshal")
	y, err := proto.Marshal(b)
	kit.Must(err, "marshal")
	return bytes.Equal(x, y)
}

func (w *world) checkMeta(t tb, cl *client, bt time.Time, what string) {
	kvs := clientKVs(w.xibc(), cl.name)
	for _, m := range w.expectedMeta(cl.in, bt) {
		got, ok := kvs[m.Key]
		if !ok {
			w.fail(t, "%s: the new %s client lacks its %s (key \"%s\")", what, cl.in.Typ, m.What, printable(m.Key))
		}
		if !bytes.Equal(got, m.Value) {
			w.fail(t, "%s: %s (key \"%s\") = %x, expected %x", what, m.What, printable(m.Key), got, m.Value)
		}
	}
	if cl.in.Typ == BSC {
		// a freshly initialised Parlia client knows exactly one recent signer, the sealer of the installed header; records of
		// the client that was there before would make it refuse valid headers of sealers it never saw sign
		for k := range kvs {
			if strings.HasPrefix(k, "recentSingers/") && k != "recentSingers/"+cl.in.Height.String() {
				w.fail(t, "%s: the newly installed BSC client (height %s) still holds the recent-signer record \"%s\" of the client that was there before", what, cl.in.Height, printable(k))
			}
		}
		w.r.Label("bsc_install_recent_signers_exact")
	}
}

func printable(s string) string {
	var b strings.Builder
	for _, c := range []byte(s) {
		if c >= 0x20 && c < 0x7f {
			b.WriteByte(c)
		} else {
			fmt.Fprintf(&b, "\\x%02x", c)
		}
	}
	return b.String()
}

func (w *world) storedClientState(cl *client) exported.ClientState {
	cs, ok := w.c.App.XIBCKeeper.ClientKeeper.GetClientState(w.c.Ctx(), cl.name)
	if !ok {
		kit.Failf("client %s vanished", cl.name)
	}
	return cs
}

func (w *world) checkActive(t tb, cl *client, what string) {
	ctx, _ := w.c.Ctx().CacheContext()
	cs := w.storedClientState(cl)
	st := cs.Status(ctx, w.c.App.XIBCKeeper.ClientKeeper.ClientStore(ctx, cl.name), w.c.App.AppCodec())
	if st != exported.Active {
		w.fail(t, "%s: status of the installed %s client is %q, not Active", what, cl.in.Typ, st)
	}
}

// verifyProof checks the genuine proof of the planted commitment at the installed height.
func (w *world) verifyProof(cl *client) error {
	in := cl.in
	var proof []byte
	switch in.Typ {
	case TM:
		b := in.tm.sim.Blocks[int64(in.Height.RevisionHeight)]
		proof = in.tm.sim.Proof(b.Version, commitmentPath(in.Src, w.c.ChainID, in.Seq))
	case BSC:
		proof = evmProof(in.bsc.world, in.bsc.contract, in.Src, w.c.ChainID, in.Seq)
	case ETH:
		proof = evmProof(in.eth.world, in.eth.contract, in.Src, w.c.ChainID, in.Seq)
	case TSS:
		proof = []byte(in.tss.addr.Acc.String())
	}
	ctx, _ := w.c.Ctx().CacheContext()
	cs := w.storedClientState(cl)
	var err error
	func() {
		defer func() {
			if p := recover(); p != nil {
				err = fmt.Errorf("panic: %v", p)
			}
		}()
		err = cs.VerifyPacketCommitment(ctx, w.c.App.XIBCKeeper.ClientKeeper.ClientStore(ctx, cl.name), w.c.App.AppCodec(),
			in.Height, proof, in.Src, w.c.ChainID, in.Seq, in.Value)
	}()
	return err
}

// delayUpdates is the number of accepted headers after which a proof at the installed height must verify.
func delayUpdates(in *inst) int {
	switch in.Typ {
	case BSC:
		// confirmations are counted with the list in force, which may have become the announced one meanwhile
		n := len(in.bsc.vals)
		if len(in.bsc.nextVals) > n {
			n = len(in.bsc.nextVals)
		}
		return n/2 + 1
	case ETH:
		return int(in.eth.delay)
	}
	return 0
}

// follow runs clauses C..F for a freshly installed client. skip names the clauses that a listed known finding excludes.
func (w *world) follow(t *rapid.T, cl *client, bt time.Time, what string, skip map[string]string) followResult {
	var fr followResult
	in := cl.in
	sk := func(clause string) bool {
		if key, ok := skip[clause]; ok {
			w.r.Exclude(key)
			fr.skipped = append(fr.skipped, clause)
			return true
		}
		return false
	}
	if !sk("meta") {
		w.checkMeta(t, cl, bt, what)
		fr.meta = true
	}
	if !sk("active") {
		w.checkActive(t, cl, what)
		fr.active = true
	}
	canUpdate := !sk("update")
	// the delay: block time for Tendermint, accepted headers for BSC / ETH, nothing for TSS
	delayOK := true
	if in.Typ == TM {
		dt := time.Duration(in.tm.delay) // exactly the delay: "inclusive"
		switch rapid.IntRange(0, 2).Draw(t, "delay_slack") {
		case 1:
			dt += time.Duration(rapid.IntRange(1, 5000).Draw(t, "delay_slack_ms")) * time.Millisecond
		case 2:
			dt += time.Nanosecond
		}
		if dt > 0 {
			w.c.Commit(dt)
			w.logf("commit", "", dt.String(), "now %s", w.c.Now.Format(time.RFC3339Nano))
		}
	}
	if n := delayUpdates(in); n > 0 {
		if canUpdate {
			for i := 0; i < n; i++ {
				w.validUpdate(t, cl, what+", header "+fmt.Sprint(i+1)+" of the delay")
			}
			fr.updated = true
		} else {
			delayOK = false
		}
	}
	if _, excluded := skip["proof"]; excluded || !delayOK {
		if excluded {
			sk("proof")
		}
	} else {
		if err := w.verifyProof(cl); err != nil {
			w.logf("proof", cl.name, in.Height.String(), "REFUSED: %s", firstLine(err.Error()))
			w.fail(t, "%s: the genuine proof at the installed height %s is refused after the delay has passed: %s", what, in.Height, firstLine(err.Error()))
		}
		fr.proof = true
		w.r.Label("proof:" + in.Typ + ":verified")
		w.logf("proof", cl.name, in.Height.String(), "verified")
	}
	if canUpdate {
		for i := rapid.IntRange(1, 2).Draw(t, "post_updates"); i > 0; i-- {
			if rapid.IntRange(0, 2).Draw(t, "invalid_before_valid") == 0 {
				if !w.invalidUpdate(t, cl) {
					return fr
				}
			}
			w.validUpdate(t, cl, what)
		}
		fr.updated = true
	}
	return fr
}

func partSet() tmtypes.PartSetHeader {
	return tmtypes.PartSetHeader{Total: 3, Hash: tmhash.Sum([]byte("part_set"))}
}
