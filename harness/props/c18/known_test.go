package c18

// Pinned, library-free reproductions of the known findings of C18 (no rapid: every value is fixed).
// Each test prints the KNOWN-FINDING line while its key is listed and the behaviour still reproduces,
// fails when it reproduces without being listed, and passes silently once it no longer reproduces.

import (
	"fmt"
	"math/big"
	"strings"
	"testing"
	"time"

	"github.com/ethereum/go-ethereum/common"
	"github.com/tendermint/tendermint/crypto/tmhash"

	bsctypes "github.com/teleport-network/teleport/x/xibc/clients/light-clients/bsc/types"
	ethtypes "github.com/teleport-network/teleport/x/xibc/clients/light-clients/eth/types"
	xibctmtypes "github.com/teleport-network/teleport/x/xibc/clients/light-clients/tendermint/types"
	tsstypes "github.com/teleport-network/teleport/x/xibc/clients/tss-client/types"
	clienttypes "github.com/teleport-network/teleport/x/xibc/core/client/types"
	commitmenttypes "github.com/teleport-network/teleport/x/xibc/core/commitment/types"

	"verif/harness/kf"
	"verif/harness/kit"
	"verif/harness/rec"
	"verif/harness/sim/bscsim"
	"verif/harness/sim/ethsim"
	"verif/harness/sim/evmsim"
	"verif/harness/sim/tmsim"
)

func settle(t *testing.T, r *rec.Recorder, key, reproduced string) {
	r.Case("pinned:"+key, true, func() interface{} { return map[string]string{"key": key, "observed": reproduced} })
	if reproduced == "" {
		return
	}
	if kf.Listed(propertyID, key) {
		kf.Report(propertyID, key)
		r.KnownFinding(key, reproduced)
		return
	}
	t.Fatalf("%s", reproduced)
}

var pinnedValue = tmhash.Sum([]byte("pinned packet commitment"))

func fixedTM(now time.Time, src, dst string, height int64, delay uint64) *inst {
	in := &inst{Typ: TM, Src: src, Seq: 7, Value: pinnedValue}
	keys := []tmsim.Key{tmsim.NewKey([]byte("c18-pinned-0")), tmsim.NewKey([]byte("c18-pinned-1"))}
	ms := []tmsim.Member{{Key: 0, Power: 3}, {Key: 1, Power: 2}}
	sim := tmsim.NewChain("simtm-1", keys, height, now.Add(-5*time.Minute), ms, ms, []tmsim.KV{{Key: commitmentPath(src, dst, in.Seq), Value: in.Value}})
	b := sim.Blocks[height]
	h := clienttypes.NewHeight(1, uint64(height))
	cs := xibctmtypes.NewClientState("simtm-1", xibctmtypes.DefaultTrustLevel, kit.TrustingPeriod, kit.UnbondingPeriod, kit.MaxClockDrift, h,
		commitmenttypes.GetSDKSpecs(), commitmenttypes.MerklePrefix{KeyPrefix: []byte("xibc")}, delay)
	kit.Must(cs.Validate(), "pinned tm client state")
	in.CS, in.Height = cs, h
	in.Cons = &xibctmtypes.ConsensusState{Timestamp: b.Time, Root: b.AppHash, NextValidatorsHash: b.NextVals.Hash()}
	in.tm = &tmInst{sim: sim, rev: 1, nk: 2, delay: delay, members: ms, trusted: height}
	in.Desc = map[string]interface{}{"height": h.String()}
	return in
}

func fixedWorld(contract common.Address, src, dst string, seq uint64, value []byte) *evmsim.World {
	return evmsim.NewWorld([]*evmsim.Account{
		{Addr: contract, Nonce: 1, Balance: big.NewInt(5), CodeHash: common.BytesToHash(tmhash.Sum([]byte("code"))),
			Storage: map[common.Hash][]byte{evmsim.Slot(commitmentPath(src, dst, seq)): evmsim.WordLeaf(common.BytesToHash(value))}},
		{Addr: common.BytesToAddress([]byte("someone")), Nonce: 3, Balance: big.NewInt(1000), CodeHash: evmsim.EmptyCode, Storage: map[common.Hash][]byte{}},
	})
}

func fixedETH(now time.Time, src, dst string, number uint64, blockDelay uint64) *inst {
	in := &inst{Typ: ETH, Src: src, Seq: 7, Value: pinnedValue}
	s := &ethInst{contract: common.BytesToAddress([]byte("pinned-xibc-packet")), delay: blockDelay}
	s.world = fixedWorld(s.contract, src, dst, in.Seq, in.Value)
	g := ethsim.Genesis(ethsim.GenesisOpts{Number: number, Time: uint64(now.Unix()) - 1000, GasLimit: 30_000_000, GasUsed: 15_000_000, BaseFee: 1_000_000_000, Root: s.world.Root()})
	s.genesis, s.head = g, g
	cs := &ethtypes.ClientState{Header: *ethsim.ToProto(g), ChainId: 4, ContractAddress: s.contract.Bytes(), TrustingPeriod: 1 << 30, BlockDelay: blockDelay}
	kit.Must(cs.Validate(), "pinned eth client state")
	in.CS, in.Height, in.Cons, in.eth = cs, cs.Header.Height, ethsim.ConsensusState(g), s
	in.Desc = map[string]interface{}{"height": in.Height.String()}
	return in
}

// fixedBSC: one validator, epoch 4, created at block `number` (a multiple of 4).
func fixedBSC(now time.Time, src, dst string, number uint64) *inst {
	in := &inst{Typ: BSC, Src: src, Seq: 7, Value: pinnedValue}
	k := bscsim.KeyFromSeed([]byte("c18-pinned"), 0)
	s := &bscInst{keys: []bscsim.Key{k}, vals: []common.Address{k.Addr}, nextKeys: []bscsim.Key{k}, nextVals: []common.Address{k.Addr}, chainID: 97, epoch: 4, contract: common.BytesToAddress([]byte("pinned-xibc-packet")),
		outsider: bscsim.KeyFromSeed([]byte("c18-pinned"), 9)}
	s.world = fixedWorld(s.contract, src, dst, in.Seq, in.Value)
	gh := &bscsim.Header{ParentHash: common.BytesToHash([]byte("pinned parent")), UncleHash: bscsim.EmptyUncleHash, Root: s.world.Root(), Number: number,
		GasLimit: 30_000_000, GasUsed: 1_000_000, Time: uint64(now.Unix()) - 100}
	s.fixedFill(gh)
	s.genesis, s.head = gh, gh
	cs := &bsctypes.ClientState{Header: *gh.ToProto(), ChainId: s.chainID, Epoch: s.epoch, BlockInteval: 3, Validators: [][]byte{k.Addr.Bytes()},
		ContractAddress: s.contract.Bytes(), TrustingPeriod: 1 << 30}
	kit.Must(cs.Validate(), "pinned bsc client state")
	in.CS, in.Height, in.bsc = cs, cs.Header.Height, s
	in.Cons = &bsctypes.ConsensusState{Timestamp: gh.Time, Height: cs.Header.Height, Root: gh.Root.Bytes()}
	in.Desc = map[string]interface{}{"height": in.Height.String()}
	return in
}

func (s *bscInst) fixedFill(h *bscsim.Header) {
	k := s.keys[h.Number%uint64(len(s.keys))]
	h.Coinbase = k.Addr
	h.Difficulty = new(big.Int).Set(bscsim.DiffInTurn)
	var mid []byte
	if h.Number%s.epoch == 0 {
		mid = bscsim.AddrBytes(s.vals)
	}
	h.Extra = bscsim.BuildExtra([32]byte{1, 2, 3}, mid)
	bscsim.Seal(h, k, s.chainID)
}

func (s *bscInst) fixedNext() *bscsim.Header {
	p := s.head
	h := &bscsim.Header{ParentHash: p.Hash(), UncleHash: bscsim.EmptyUncleHash, Root: common.BytesToHash([]byte("next root")), Number: p.Number + 1,
		GasLimit: p.GasLimit, GasUsed: 0, Time: p.Time + 3}
	s.fixedFill(h)
	return h
}

func fixedTSS(acct kit.Account, src string) *inst {
	in := &inst{Typ: TSS, Src: src, Seq: 7, Value: pinnedValue}
	in.CS = &tsstypes.ClientState{TssAddress: acct.Acc.String(), Pubkey: []byte("pinned pubkey"), PartPubkeys: [][]byte{[]byte("part")}, Threshold: 1}
	in.Cons = &tsstypes.ConsensusState{}
	in.tss = &tssInst{addr: acct}
	in.Desc = map[string]interface{}{"tss_address": acct.Acc.String()}
	return in
}

// pinnedInstall runs a lifecycle proposal; on success cl holds in.
func (w *world) pinnedInstall(t *testing.T, cl *client, action string, in *inst) proposalResult {
	res := w.propose(t, makeContent(action, cl.name, in.CS, in.Cons))
	w.logf(action, cl.name, in.Typ, "%s", res.String())
	if res.ok() {
		cl.in = in
		if in.Typ == TSS {
			cl.tssCur = in.tss.addr
		}
	}
	return res
}

func (w *world) mustInstall(t *testing.T, cl *client, action string, in *inst) {
	if res := w.pinnedInstall(t, cl, action, in); !res.ok() {
		kit.Failf("pinned scenario broken: %s of a %s client on %q failed: %s", action, in.Typ, cl.name, res.String())
	}
}

// TestC18_Known_ToggleInitializesOldClient: (a) TSS -> Tendermint toggle succeeds but leaves no processed time, so the
// genuine proof at the installed height is refused; (b) Tendermint -> TSS toggle is rejected by the old client's Initialize.
func TestC18_Known_ToggleInitializesOldClient(t *testing.T) {
	r := rec.For("TestC18_Known_ToggleInitializesOldClient", "pinned: tss->tendermint toggle then proof at the installed height; tendermint->tss toggle")
	w := newWorld(r)
	var obs []string

	a := w.newClient("pinned-a")
	w.mustInstall(t, a, "create", fixedTSS(w.tssA, a.name))
	bt := w.c.Header.Time
	if res := w.pinnedInstall(t, a, "toggle", fixedTM(w.c.Now, a.name, w.c.ChainID, 12, 0)); !res.ok() {
		obs = append(obs, "valid toggle tss->tendermint rejected: "+res.String())
	} else {
		kvs := clientKVs(w.xibc(), a.name)
		for _, m := range w.expectedMeta(a.in, bt) {
			if _, ok := kvs[m.Key]; !ok {
				obs = append(obs, "after the toggle tss->tendermint the client store lacks the "+m.What)
			}
		}
		if err := w.verifyProof(a); err != nil {
			obs = append(obs, "genuine proof at the installed height refused: "+firstLine(err.Error()))
		}
	}

	b := w.newClient("pinned-b")
	w.mustInstall(t, b, "create", fixedTM(w.c.Now, b.name, w.c.ChainID, 12, 0))
	before := w.xibc()
	if res := w.pinnedInstall(t, b, "toggle", fixedTSS(w.tssA, b.name)); !res.ok() {
		w.assertUnchanged(t, before, "rejected toggle")
		obs = append(obs, "valid toggle tendermint->tss rejected: "+res.String())
	}
	settle(t, r, kfToggleOld, strings.Join(obs, "; "))
}

// TestC18_Known_TSSUpdateNilHeightPanic: a TSS client update from the TSS account (a registered relayer) panics in the keeper.
func TestC18_Known_TSSUpdateNilHeightPanic(t *testing.T) {
	r := rec.For("TestC18_Known_TSSUpdateNilHeightPanic", "pinned: MsgUpdateClient with a valid TSS header from the TSS account through DeliverTx")
	w := newWorld(r)
	cl := w.newClient("pinned-tss")
	w.mustInstall(t, cl, "create", fixedTSS(w.tssA, cl.name))
	hd := &tsstypes.Header{TssAddress: w.tssB.Acc.String(), Pubkey: []byte("new pubkey"), PartPubkeys: [][]byte{[]byte("p1"), []byte("p2")}, Threshold: 2}
	before := w.xibc()
	res := w.deliverUpdate(cl.name, hd, w.tssA)
	obs := ""
	if !res.OK() {
		w.assertUnchanged(t, before, "rejected TSS update")
		obs = "valid TSS update from the TSS account rejected: " + firstLine(res.Log)
	} else if cs := w.storedClientState(cl).(*tsstypes.ClientState); cs.TssAddress != hd.TssAddress {
		obs = "TSS update accepted but the client state was not updated"
	}
	settle(t, r, kfTSSUpdate, obs)
}

// TestC18_Known_ToggleLeavesOldConsensusStates: a TSS client (created, then upgraded, which stores its empty consensus state
// at height 0-0) toggled to BSC at height 200; the TSS consensus state at 0-0 stays in the store and the first valid BSC header
// is rejected by the pruning step. (TSS -> BSC is used because that toggle is accepted with and without the other C18 fixes.)
func TestC18_Known_ToggleLeavesOldConsensusStates(t *testing.T) {
	r := rec.For("TestC18_Known_ToggleLeavesOldConsensusStates", "pinned: tss (created + upgraded) -> bsc(height 200) toggle, then the next valid BSC header from the relayer")
	w := newWorld(r)
	cl := w.newClient("pinned-left")
	w.mustInstall(t, cl, "create", fixedTSS(w.tssA, cl.name))
	old := fixedTSS(w.tssB, cl.name)
	w.mustInstall(t, cl, "upgrade", old)
	obs := ""
	if res := w.pinnedInstall(t, cl, "toggle", fixedBSC(w.c.Now, cl.name, w.c.ChainID, 200)); res.ok() {
		_, stale := clientKVs(w.xibc(), cl.name)[consKey(old.Height)]
		nh := cl.in.bsc.fixedNext()
		tx := w.deliverUpdate(cl.name, nh.ToProto(), w.relayer)
		if !tx.OK() && strings.Contains(tx.Log, "invalid consensus type") {
			obs = fmt.Sprintf("after toggle tss -> bsc(0-200) the TSS consensus state at 0-0 is still stored (%v) and the valid BSC header 201 is rejected: %s", stale, firstLine(tx.Log))
		}
	} else {
		kit.Failf("pinned scenario broken: toggle tss -> bsc rejected: %s", res.String())
	}
	settle(t, r, kfLeftover, obs)
}

// TestC18_Known_TMUpgradeNoConsensusMetadata: Tendermint -> Tendermint upgrade stores no processed time for the new height.
func TestC18_Known_TMUpgradeNoConsensusMetadata(t *testing.T) {
	r := rec.For("TestC18_Known_TMUpgradeNoConsensusMetadata", "pinned: tendermint client at 1-12 upgraded to 1-500, then the proof at 1-500")
	w := newWorld(r)
	cl := w.newClient("pinned-up")
	w.mustInstall(t, cl, "create", fixedTM(w.c.Now, cl.name, w.c.ChainID, 12, 0))
	if err := w.verifyProof(cl); err != nil {
		kit.Failf("pinned scenario broken: proof at the created height refused: %v", err)
	}
	bt := w.c.Header.Time
	w.mustInstall(t, cl, "upgrade", fixedTM(w.c.Now, cl.name, w.c.ChainID, 500, 0))
	var obs []string
	kvs := clientKVs(w.xibc(), cl.name)
	for _, m := range w.expectedMeta(cl.in, bt) {
		if _, ok := kvs[m.Key]; !ok {
			obs = append(obs, "after the upgrade the client store lacks the "+m.What)
		}
	}
	w.c.Commit(5 * time.Second)
	if err := w.verifyProof(cl); err != nil {
		obs = append(obs, "genuine proof at the upgraded height refused: "+firstLine(err.Error()))
	}
	settle(t, r, kfTMUpgrade, strings.Join(obs, "; "))
}

// TestC18_Known_WrongConsensusTypeAccepted: ETH and BSC clients created with a Tendermint consensus state.
func TestC18_Known_WrongConsensusTypeAccepted(t *testing.T) {
	r := rec.For("TestC18_Known_WrongConsensusTypeAccepted", "pinned: create proposals with an eth / bsc client state and a tendermint consensus state")
	w := newWorld(r)
	var obs []string
	for _, typ := range []string{ETH, BSC} {
		cl := w.newClient("pinned-wrong-" + typ)
		in := fixedETH(w.c.Now, cl.name, w.c.ChainID, 10, 0)
		if typ == BSC {
			in = fixedBSC(w.c.Now, cl.name, w.c.ChainID, 200)
		}
		in.Cons = fixedTM(w.c.Now, cl.name, w.c.ChainID, 12, 0).Cons
		before := w.xibc()
		res := w.pinnedInstall(t, cl, "create", in)
		if !res.ok() {
			w.assertUnchanged(t, before, "rejected create")
			continue
		}
		ctx, _ := w.c.Ctx().CacheContext()
		st := w.storedClientState(cl).Status(ctx, w.c.App.XIBCKeeper.ClientKeeper.ClientStore(ctx, cl.name), w.c.App.AppCodec())
		if st != "Active" {
			obs = append(obs, fmt.Sprintf("create of a %s client with a tendermint consensus state accepted; status %s", typ, st))
		}
	}
	settle(t, r, kfWrongCons, strings.Join(obs, "; "))
}
