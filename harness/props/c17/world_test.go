package c17

import (
	"encoding/json"
	"fmt"
	"math/big"
	"sort"
	"strings"
	"time"

	sdk "github.com/cosmos/cosmos-sdk/types"
	sdkerrors "github.com/cosmos/cosmos-sdk/types/errors"
	authtypes "github.com/cosmos/cosmos-sdk/x/auth/types"
	distrtypes "github.com/cosmos/cosmos-sdk/x/distribution/types"
	govtypes "github.com/cosmos/cosmos-sdk/x/gov/types"
	stakingtypes "github.com/cosmos/cosmos-sdk/x/staking/types"

	"github.com/ethereum/go-ethereum/common"
	"github.com/ethereum/go-ethereum/crypto"
	"pgregory.net/rapid"

	"github.com/teleport-network/teleport/app"
	cmdcfg "github.com/teleport-network/teleport/cmd/config"

	"verif/harness/kit"
	"verif/harness/rec"
	"verif/harness/sim/asmkit"
)

func init() {
	// the chain's own bech32 prefixes (teleport / teleportvaloper …), as the node binary sets them
	cmdcfg.SetBech32Prefixes(sdk.GetConfig())
}

const (
	depositPeriod = 50 * time.Second
	votingPeriod  = 100 * time.Second
	unbondingTime = 60 * time.Second
	minDeposit    = 1000
)

var (
	allStores    = []string{"staking", "gov", "distribution", "bank", "slashing", "evm"}
	nativeStores = []string{"staking", "gov", "distribution", "bank", "slashing"}
)

type stepLog struct {
	Step   string      `json:"step"`
	Detail interface{} `json:"detail,omitempty"`
	Result string      `json:"result,omitempty"`
}

type world struct {
	t *rapid.T
	r *rec.Recorder
	c *kit.Chain

	whale, proposer, deployer, subDeployer, wrapDeployer, treasury kit.Account
	eoas                                                           []kit.Account // EVM transaction senders (eoas[0] is the whale)
	vals                                                           []string      // operator addresses of the genesis validators

	sys     map[string]*node   // "staking", "gov"
	routes  map[string][]*node // per system contract: fixture wrappers whose leaf is that contract
	emitter *node
	emitVia []*node // emitter, proxy>emitter, dproxy>emitter
	scripts []*node // deployed scripts (re-invocable)
	funded  []common.Address

	profile string
	hist    []stepLog
	triples map[string]bool
	// non-triviality
	nestedOK, nestedFail int
	burnSeen             int
}

func mutateGenesis(a *app.Teleport, g map[string]json.RawMessage) {
	cdc := a.AppCodec()
	var gg govtypes.GenesisState
	cdc.MustUnmarshalJSON(g[govtypes.ModuleName], &gg)
	gg.DepositParams.MaxDepositPeriod = depositPeriod
	gg.DepositParams.MinDeposit = sdk.NewCoins(sdk.NewInt64Coin(sdk.DefaultBondDenom, minDeposit))
	gg.VotingParams.VotingPeriod = votingPeriod
	g[govtypes.ModuleName] = cdc.MustMarshalJSON(&gg)

	var sg stakingtypes.GenesisState
	cdc.MustUnmarshalJSON(g[stakingtypes.ModuleName], &sg)
	sg.Params.UnbondingTime = unbondingTime
	sg.Params.MaxEntries = 3
	g[stakingtypes.ModuleName] = cdc.MustMarshalJSON(&sg)
}

func newWorld(t *rapid.T, r *rec.Recorder, numVals int) *world {
	c := kit.NewChain("teleport_9000-1", kit.ChainOpts{Seed: []byte("c17"), NumValidators: numVals, NumAccounts: 8, GenesisMutator: mutateGenesis, BalanceCoins: 1_000_000})
	w := &world{t: t, r: r, c: c, triples: map[string]bool{}}
	w.whale = c.Accounts[0]
	w.proposer = c.Accounts[3]
	w.deployer, w.subDeployer, w.wrapDeployer = c.Accounts[4], c.Accounts[5], c.Accounts[6]
	w.treasury = c.Accounts[7] // pays fixtures' funding and rewards; never a caller
	w.eoas = []kit.Account{c.Accounts[0], c.Accounts[1], c.Accounts[2]}
	for _, v := range c.App.StakingKeeper.GetAllValidators(c.Ctx()) {
		w.vals = append(w.vals, v.OperatorAddress)
	}
	sort.Strings(w.vals)
	// A delegation that never moves keeps every validator record alive: kit chains name a fixed block
	// proposer, and Ethermint needs that validator to exist (on a real chain Tendermint only lets
	// current validators propose).
	for _, v := range w.vals {
		res := c.Deliver(w.treasury, &stakingtypes.MsgDelegate{DelegatorAddress: w.treasury.Acc.String(), ValidatorAddress: v,
			Amount: sdk.NewInt64Coin(sdk.DefaultBondDenom, 1_000_000_000_000)})
		if !res.OK() {
			kit.Failf("guardian delegation: %s", res.Log)
		}
	}

	w.sys = map[string]*node{
		"staking": {Kind: "sys", Sys: "staking", Addr: stakingAddr, Name: "staking"},
		"gov":     {Kind: "sys", Sys: "gov", Addr: govAddr, Name: "gov"},
	}
	w.routes = map[string][]*node{}
	for _, s := range []string{"staking", "gov"} {
		leaf := w.sys[s]
		p := w.deployNode(&node{Kind: "proxy", Target: leaf})
		pp := w.deployNode(&node{Kind: "proxy", Target: p})
		d := w.deployNode(&node{Kind: "dproxy", Target: leaf})
		dp := w.deployNode(&node{Kind: "dproxy", Target: p}) // delegatecalls proxy code: the CALL comes from dp itself
		pd := w.deployNode(&node{Kind: "proxy", Target: d})
		// the system contract's own byte code at another address (its events come from that address)
		cl := w.deployNode(&node{Kind: "clone", Sys: s, Code: c.App.EvmKeeper.GetCode(w.ctx(), common.BytesToHash(c.App.EvmKeeper.GetAccountOrEmpty(w.ctx(), leaf.Addr).CodeHash))})
		w.routes[s] = []*node{p, pp, d, dp, pd, cl}
		w.fund(cl.Addr, 1_000_000_000)
		// the contracts that can become the direct caller of the system contract get coins
		w.fund(p.Addr, 1_000_000_000_000)
		w.fund(dp.Addr, 1_000_000_000_000)
	}
	w.emitter = w.deployNode(&node{Kind: "emitter"})
	w.emitVia = []*node{w.emitter,
		w.deployNode(&node{Kind: "proxy", Target: w.emitter}),
		w.deployNode(&node{Kind: "dproxy", Target: w.emitter})}
	return w
}

func (w *world) ctx() sdk.Context { return w.c.Ctx() }

func (w *world) fund(a common.Address, amt int64) {
	coins := sdk.NewCoins(sdk.NewInt64Coin(sdk.DefaultBondDenom, amt))
	kit.Must(w.c.App.BankKeeper.SendCoins(w.ctx(), w.treasury.Acc, sdk.AccAddress(a.Bytes()), coins), "fund")
	w.funded = append(w.funded, a)
}

func (n *node) runtime() []byte {
	switch n.Kind {
	case "proxy":
		return asmkit.Proxy(n.Target.Addr)
	case "dproxy":
		return asmkit.DelegateProxy(n.Target.Addr)
	case "emitter":
		return asmkit.Emitter(1)
	case "clone":
		if len(n.Code) == 0 {
			kit.Failf("clone without code")
		}
		return n.Code
	case "script":
		var ops []asmkit.Op
		for _, op := range n.Ops {
			switch op.Kind {
			case "call":
				ops = append(ops, asmkit.Op{Kind: asmkit.OpCall, Target: op.Target.Addr, Data: op.Payload.bytes(), Try: op.Try})
			case "dcall":
				ops = append(ops, asmkit.Op{Kind: asmkit.OpDelegateCall, Target: op.Target.Addr, Data: op.Payload.bytes(), Try: op.Try})
			case "log":
				t0, data := op.Payload.Look.eventLog(op.Payload.Victim)
				ops = append(ops, asmkit.Op{Kind: asmkit.OpLog, Topics: []common.Hash{t0}, Data: data})
			case "revert":
				ops = append(ops, asmkit.Op{Kind: asmkit.OpRevert})
			}
		}
		return asmkit.Script(ops)
	}
	kit.Failf("runtime of %q", n.Kind)
	return nil
}

// nextCreateAddr is the address the deployer's next creation transaction will give.
func (w *world) nextCreateAddr(from kit.Account) common.Address {
	return crypto.CreateAddress(from.Addr, w.c.App.EvmKeeper.GetNonce(w.ctx(), from.Addr))
}

// deployNode deploys n (whose targets are already deployed) from the deployer account.
func (w *world) deployNode(n *node) *node { return w.deployFrom(w.deployer, n) }

func (w *world) deployFrom(from kit.Account, n *node) *node {
	want := w.nextCreateAddr(from)
	if n.Addr != (common.Address{}) && n.Addr != want {
		kit.Failf("deploy: address predicted %s, now %s", n.Addr, want)
	}
	code := n.runtime()
	res := w.c.DeliverEth(from, nil, nil, asmkit.InitCode(code))
	if !res.Succeeded() {
		kit.Failf("deploy %s failed: code=%d log=%s vmerr=%s", n.Kind, res.Code, res.Log, res.VmError)
	}
	n.Addr = want
	if got := w.c.App.EvmKeeper.GetCode(w.ctx(), common.BytesToHash(w.c.App.EvmKeeper.GetAccountOrEmpty(w.ctx(), want).CodeHash)); string(got) != string(code) {
		kit.Failf("deploy %s: code mismatch at %s", n.Kind, want)
	}
	return n
}

func (w *world) supply() string {
	var out []string
	w.c.App.BankKeeper.IterateTotalSupply(w.ctx(), func(c sdk.Coin) bool {
		out = append(out, c.String())
		return false
	})
	sort.Strings(out)
	return strings.Join(out, ",")
}

func (w *world) bal(ctx sdk.Context, a sdk.AccAddress) sdk.Int {
	return w.c.App.BankKeeper.GetBalance(ctx, a, sdk.DefaultBondDenom).Amount
}

func modAddr(name string) sdk.AccAddress { return authtypes.NewModuleAddress(name) }

func (w *world) log(step string, detail interface{}, result string) {
	w.hist = append(w.hist, stepLog{Step: step, Detail: detail, Result: result})
}

func (w *world) render() string {
	bz, _ := json.Marshal(w.hist)
	if len(bz) > 6000 {
		return string(bz[:3000]) + " … " + string(bz[len(bz)-3000:])
	}
	return string(bz)
}

func errClass(err error) string {
	if err == nil {
		return "ok"
	}
	cs, code, _ := sdkerrors.ABCIInfo(err, false)
	return fmt.Sprintf("%s/%d", cs, code)
}

// runNative executes the expected native actions on a branch of the pre-state, the way a Cosmos
// transaction signed by the respective caller would run them (ValidateBasic, then the message
// service router's handler); all or nothing.
func (w *world) runNative(effects []emitted) (bctx sdk.Context, ok bool, failClass string, failIdx int) {
	bctx, _ = w.ctx().CacheContext()
	for i, e := range effects {
		msg, representable := e.Act.nativeMsg(e.Sender)
		if !representable {
			return bctx, false, "unrepresentable", i
		}
		if err := msg.ValidateBasic(); err != nil {
			return bctx, false, "basic:" + errClass(err), i
		}
		h := w.c.App.MsgServiceRouter().Handler(msg)
		if h == nil {
			kit.Failf("no handler for %T", msg)
		}
		var err error
		func() {
			defer func() {
				if p := recover(); p != nil {
					err = fmt.Errorf("panic: %v", p)
					failClass = "panic"
				}
			}()
			_, err = h(bctx, msg)
		}()
		if err != nil {
			if failClass == "" {
				failClass = errClass(err)
			}
			return bctx, false, failClass, i
		}
	}
	return bctx, true, "", -1
}

// txSpec is one Ethereum transaction together with the model of its call tree.
type txSpec struct {
	From   kit.Account
	Root   *node // callee (for a creation tx: the script that runs as init code)
	Create bool
	In     payload
	Desc   string
}

func shapeOf(path string) string {
	// "eoa>proxy>proxy>staking" -> caller shape without the leaf
	i := strings.LastIndex(path, ">")
	return path[:i]
}

// runTx delivers the transaction and checks the C17 oracle around it.
func (w *world) runTx(s txSpec) {
	t, c := w.t, w.c
	w.r.Step()

	// ---- model: which logs, from which frames
	self := s.Root.Addr
	var to *common.Address
	data := s.In.bytes()
	if s.Create {
		self = w.nextCreateAddr(s.From)
		s.Root.Addr = self
		data = s.Root.runtime()
	} else {
		a := s.Root.Addr
		to = &a
	}
	evmOK, evs := exec(s.Root, self, s.From.Addr, s.In, "eoa")
	effects := nativeEffects(evs)
	if !evmOK {
		effects = nil
	}

	// ---- reference: the same requests as native messages of the direct callers, on a branch
	pre := c.DumpStores(w.ctx(), allStores...)
	supplyPre := w.supply()
	bctx, nativeOK, failClass, failIdx := w.runNative(effects)
	want := c.DumpStores(bctx, nativeStores...)
	expectOK := evmOK && nativeOK

	var value *big.Int
	if s.In.Value {
		value = big.NewInt(1)
	}
	res := c.DeliverEth(s.From, to, value, data)
	post := c.DumpStores(w.ctx(), allStores...)

	outcome := "ok"
	switch {
	case !evmOK:
		outcome = "evm-revert"
	case !nativeOK:
		outcome = "native-fail:" + failClass
	}
	detail := map[string]interface{}{"tx": s.Desc, "from": s.From.Addr.Hex()}
	var acts []string
	for i, e := range effects {
		o := "ok"
		if !nativeOK && i == failIdx {
			o = "fail:" + failClass
		} else if !nativeOK && i > failIdx {
			o = "not-reached"
		} else if !nativeOK {
			o = "ok-then-reverted"
		}
		acts = append(acts, fmt.Sprintf("%s %s by %s [%s] -> %s", e.Act.Method, e.Act.Class, e.Sender.Hex()[:10], e.Path, o))
	}
	detail["native"] = acts
	w.log("tx", detail, fmt.Sprintf("expect=%s got: code=%d vmerr=%q", outcome, res.Code, res.VmError))

	if res.Code == 0 {
		res.Log = "" // the event list of an included tx; only useful for rejected txs
	}
	if res.Succeeded() != expectOK {
		t.Fatalf("C17: EVM tx success=%v (code=%d log=%.200s vmerr=%q) but the equivalent native messages of the direct callers succeed=%v (evm-level ok=%v, %s at action %d)\ntx=%s\nhistory=%s",
			res.Succeeded(), res.Code, res.Log, res.VmError, expectOK, evmOK, failClass, failIdx, s.Desc, w.render())
	}
	if expectOK {
		got := kit.Dump{}
		for _, n := range nativeStores {
			got[n] = post[n]
		}
		if d := kit.Diff(want, got); len(d) > 0 {
			t.Fatalf("C17: native state after the EVM tx differs from the state after the equivalent native messages (reference -> EVM):\n%stx=%s\nhistory=%s",
				kit.DiffString(d, 8), s.Desc, w.render())
		}
		if d := kit.Diff(kit.Dump{"evm": pre["evm"]}, kit.Dump{"evm": post["evm"]}); len(d) > 0 && !s.Create {
			t.Fatalf("C17: evm store changed by a system-contract call:\n%s", kit.DiffString(d, 8))
		}
	} else if d := kit.Diff(pre, post); len(d) > 0 {
		t.Fatalf("C17: failed EVM tx (%s) left changes behind:\n%stx=%s\nhistory=%s", outcome, kit.DiffString(d, 8), s.Desc, w.render())
	}
	if sp := w.supply(); sp != supplyPre {
		t.Fatalf("C17: total supply changed across an EVM tx: %s -> %s\ntx=%s", supplyPre, sp, s.Desc)
	}
	// look-alikes and wrong-address events: present in the receipt of a successful tx, byte-identical
	if res.Succeeded() {
		w.checkReceipt(res, evs, s)
	}

	// ---- evidence
	for i, e := range evs {
		if e.Look || e.Addr != e.Act.sysAddr() {
			kind := "script.log"
			if !e.Look && strings.Contains(e.Path, ">clone:") {
				kind = "clone-of-system-contract"
			} else if !e.Look {
				kind = "delegatecall"
			} else if strings.HasSuffix(e.Path, ">emitter") {
				kind = "emitter"
			}
			o := "no-effect"
			if !expectOK {
				o = "tx-failed"
			}
			w.r.Label(fmt.Sprintf("lookalike %s %s %s", e.Act.Method, kind, o))
			w.triples["look|"+e.Act.Method+"|"+kind] = true
			continue
		}
		_ = i
	}
	for i, e := range effects {
		o := "ok"
		switch {
		case !nativeOK && i == failIdx:
			o = "fail"
		case !nativeOK && i < failIdx:
			o = "reverted-with-later-failure"
		case !nativeOK:
			o = "not-reached"
		}
		shape := shapeOf(e.Path)
		nested := shape != "eoa"
		w.r.Label(fmt.Sprintf("%s | %s | %s", e.Act.Method, shape, o))
		if o == "fail" {
			w.r.Label("native failure " + e.Act.Method + " " + failClass)
			w.triples[e.Act.Method+"|"+shape+"|fail:"+failClass] = true
			if nested {
				w.nestedFail++
			}
		} else {
			w.triples[e.Act.Method+"|"+shape+"|"+o] = true
			if nested && o == "ok" {
				w.nestedOK++
			}
		}
		for _, c := range strings.Fields(e.Act.Class) {
			w.r.Label("arg " + e.Act.Sys + " " + c)
		}
	}
	if !evmOK {
		w.r.Label("evm-level revert (no hook runs)")
	}
	if len(effects) >= 2 {
		w.r.Label(fmt.Sprintf("tx with %d native actions, all ok=%v", min(len(effects), 4), nativeOK))
	}
	if evmOK && len(evs) > 0 && len(effects) == 0 {
		w.r.Label("tx with only look-alike / wrong-address events")
	}
}

// checkReceipt: the model's log list equals the receipt's (address, topic0, data) list — this is
// what makes the look-alikes "byte-identical" and pins "once per emitted event" to the real logs.
func (w *world) checkReceipt(res kit.EthResult, evs []emitted, s txSpec) {
	if len(res.Logs) != len(evs) {
		kit.Failf("model predicts %d logs, receipt has %d (tx=%s)", len(evs), len(res.Logs), s.Desc)
	}
	for i, e := range evs {
		who := e.Sender
		if e.Look {
			who = e.Victim
		}
		t0, data := e.Act.eventLog(who)
		l := res.Logs[i]
		if l.Address != e.Addr || len(l.Topics) != 1 || l.Topics[0] != t0 || string(l.Data) != string(data) {
			kit.Failf("log %d differs from the model: addr %s vs %s (tx=%s)", i, l.Address, e.Addr, s.Desc)
		}
	}
}

// ---------------------------------------------------------------------------------------------
// state readers used by the generators (reads only)

func (w *world) delegatedTokens(who common.Address, val string) sdk.Int {
	va, err := sdk.ValAddressFromBech32(val)
	if err != nil {
		return sdk.ZeroInt()
	}
	d, ok := w.c.App.StakingKeeper.GetDelegation(w.ctx(), sdk.AccAddress(who.Bytes()), va)
	if !ok {
		return sdk.ZeroInt()
	}
	v, ok := w.c.App.StakingKeeper.GetValidator(w.ctx(), va)
	if !ok {
		return sdk.ZeroInt()
	}
	return v.TokensFromShares(d.Shares).TruncateInt()
}

func (w *world) delegatedVals(who common.Address) []string {
	var out []string
	for _, v := range w.vals {
		if w.delegatedTokens(who, v).IsPositive() {
			out = append(out, v)
		}
	}
	return out
}

type propInfo struct {
	ID     uint64
	Status govtypes.ProposalStatus
}

func (w *world) proposals() []propInfo {
	var out []propInfo
	for _, p := range w.c.App.GovKeeper.GetProposals(w.ctx()) {
		out = append(out, propInfo{p.ProposalId, p.Status})
	}
	return out
}

var _ = distrtypes.ModuleName
