package c15

import (
	"fmt"
	"testing"

	"github.com/gogo/protobuf/proto"

	gethtypes "github.com/ethereum/go-ethereum/core/types"
	"github.com/ethereum/go-ethereum/crypto"

	sdk "github.com/cosmos/cosmos-sdk/types"
	govtypes "github.com/cosmos/cosmos-sdk/x/gov/types"
	paramproposal "github.com/cosmos/cosmos-sdk/x/params/types/proposal"

	rvesting "github.com/teleport-network/teleport/x/rvesting/module"
	rvestingmodule "github.com/teleport-network/teleport/x/rvesting/module"
	rvestingtypes "github.com/teleport-network/teleport/x/rvesting/types"
	bsctypes "github.com/teleport-network/teleport/x/xibc/clients/light-clients/bsc/types"
	ethtypes "github.com/teleport-network/teleport/x/xibc/clients/light-clients/eth/types"
	tmtypes "github.com/teleport-network/teleport/x/xibc/clients/light-clients/tendermint/types"
	tsstypes "github.com/teleport-network/teleport/x/xibc/clients/tss-client/types"
	xibcclient "github.com/teleport-network/teleport/x/xibc/core/client"
	clienttypes "github.com/teleport-network/teleport/x/xibc/core/client/types"
	commitmenttypes "github.com/teleport-network/teleport/x/xibc/core/commitment/types"
	xibcmodule "github.com/teleport-network/teleport/x/xibc/module"

	"verif/harness/kf"
	"verif/harness/kit"
	"verif/harness/rec"
)

// ---------------------------------------------------------------------------------------------
// fixed, well-formed client states (no generator): pinned reproductions and fuzz states start from these

func fixedBSC(number uint64) *bsctypes.ClientState {
	key := keyFromSeed(0)
	signer := crypto.PubkeyToAddress(key.PublicKey)
	h := bsctypes.Header{
		ParentHash: make([]byte, 32), UncleHash: gethtypes.EmptyUncleHash.Bytes(), Coinbase: signer.Bytes(), Root: make([]byte, 32), TxHash: make([]byte, 32),
		ReceiptHash: make([]byte, 32), Bloom: make([]byte, 256), Difficulty: []byte{2}, Height: clienttypes.NewHeight(0, number), GasLimit: 30000000, GasUsed: 21000,
		Time: uint64(kit.Epoch.Unix()), MixDigest: make([]byte, 32), Nonce: make([]byte, 8),
	}
	h.Extra = append(append(make([]byte, 32), signer.Bytes()...), make([]byte, 65)...)
	sig, err := crypto.Sign(bscSealHash(h, 56).Bytes(), key)
	kit.Must(err, "sign")
	copy(h.Extra[len(h.Extra)-65:], sig)
	return &bsctypes.ClientState{Header: h, ChainId: 56, Epoch: 200, BlockInteval: 3, Validators: [][]byte{signer.Bytes()}, ContractAddress: make([]byte, 20), TrustingPeriod: 1000000}
}

func fixedETH() *ethtypes.ClientState {
	return &ethtypes.ClientState{Header: ethtypes.Header{ParentHash: make([]byte, 32), UncleHash: make([]byte, 32), Coinbase: make([]byte, 20), Root: make([]byte, 32),
		TxHash: make([]byte, 32), ReceiptHash: make([]byte, 32), Bloom: make([]byte, 256), Difficulty: []byte{2, 0, 0}, Height: clienttypes.NewHeight(0, 1000),
		GasLimit: 30000000, GasUsed: 21000, Time: uint64(kit.Epoch.Unix()), Extra: make([]byte, 32), MixDigest: make([]byte, 32), Nonce: 7, BaseFee: []byte{1}},
		ChainId: 1, ContractAddress: make([]byte, 20), TrustingPeriod: 1000000}
}

func fixedTM() *tmtypes.ClientState {
	return tmtypes.NewClientState("testchain-1", tmtypes.DefaultTrustLevel, kit.TrustingPeriod, kit.UnbondingPeriod, kit.MaxClockDrift, clienttypes.NewHeight(1, 10),
		commitmenttypes.GetSDKSpecs(), commitmenttypes.MerklePrefix{KeyPrefix: []byte("xibc")}, 0)
}

func fixedTSS() *tsstypes.ClientState {
	return &tsstypes.ClientState{TssAddress: kit.NewAccount([]byte{'a', 0}).Acc.String(), Pubkey: []byte("pubkey"), PartPubkeys: [][]byte{[]byte("p1")}, Threshold: 1}
}

func fixedCons(kind string) proto.Message {
	switch kind {
	case "tendermint":
		return &tmtypes.ConsensusState{Timestamp: kit.Epoch, Root: make([]byte, 32), NextValidatorsHash: make([]byte, 32)}
	case "tss":
		return &tsstypes.ConsensusState{}
	case "bsc":
		return &bsctypes.ConsensusState{Timestamp: uint64(kit.Epoch.Unix()), Height: clienttypes.NewHeight(0, 200), Root: make([]byte, 32)}
	default:
		return &ethtypes.ConsensusState{Timestamp: uint64(kit.Epoch.Unix()), Height: clienttypes.NewHeight(0, 1000), Root: make([]byte, 32)}
	}
}

// pinned runs one pinned scenario: accepted says whether validation still accepts the input; p is the observed panic.
func pinned(t *testing.T, test, key, what string, accepted bool, p *panicInfo) {
	r := rec.For(test, "pinned: "+what)
	r.Case("pinned:"+key, true, func() interface{} {
		return fmt.Sprintf("%s; accepted by validation=%v; panic=%v", what, accepted, p != nil)
	})
	if !accepted || p == nil {
		return // rejected by validation, or executed without panic: the property holds for this input
	}
	if kf.Listed("C15", key) {
		kf.Report("C15", key)
		r.KnownFinding(key, p.String())
		return
	}
	t.Fatalf("%s: accepted by validation and then panicked outside tx recovery: %s", what, p)
}

func acceptedContent(w *world, c govtypes.Content) (govtypes.Content, bool) {
	content, _, _ := roundTrip(w, c)
	if content == nil {
		return nil, false
	}
	var err error
	if p := guard(func() { err = content.ValidateBasic() }); p != nil || err != nil {
		return nil, false
	}
	return content, true
}

func createProposal(name string, cs proto.Message, cons proto.Message) *clienttypes.CreateClientProposal {
	return &clienttypes.CreateClientProposal{Title: "t", Description: "d", ChainName: name, ClientState: mustAny(cs), ConsensusState: mustAny(cons)}
}

func TestC15_Known_BscEpochZero(t *testing.T) {
	w := baseWorld()
	cs := fixedBSC(200)
	cs.Epoch = 0
	content, ok := acceptedContent(w, createProposal("bsc-test", cs, fixedCons("bsc")))
	var p *panicInfo
	if ok {
		ctx, _ := w.c.Ctx().CacheContext()
		p = guard(func() { _ = execLikeGov(ctx, w.xibcH, content) })
	}
	pinned(t, "TestC15_Known_BscEpochZero", "bsc-initialize-epoch-zero", "CreateClient proposal, BSC client state with Epoch=0 at block 0", ok, p)
}

func TestC15_Known_BscChainIdOverflow(t *testing.T) {
	w := baseWorld()
	cs := fixedBSC(200)
	cs.ChainId = 1 << 63
	content, ok := acceptedContent(w, createProposal("bsc-test", cs, fixedCons("bsc")))
	var p *panicInfo
	if ok {
		ctx, _ := w.c.Ctx().CacheContext()
		p = guard(func() { _ = execLikeGov(ctx, w.xibcH, content) })
	}
	pinned(t, "TestC15_Known_BscChainIdOverflow", "bsc-initialize-chainid-overflow", "CreateClient proposal, BSC client state with ChainId=2^63", ok, p)
}

func TestC15_Known_EthBloomOversize(t *testing.T) {
	w := baseWorld()
	cs := fixedETH()
	cs.Header.Height = clienttypes.NewHeight(0, 0)
	cs.Header.Bloom = make([]byte, 257)
	content, ok := acceptedContent(w, createProposal("eth.main", cs, fixedCons("eth")))
	var p *panicInfo
	if ok {
		ctx, _ := w.c.Ctx().CacheContext()
		p = guard(func() { _ = execLikeGov(ctx, w.xibcH, content) })
	}
	pinned(t, "TestC15_Known_EthBloomOversize", "eth-initialize-bloom-oversize", "CreateClient proposal, ETH client state at height 0 with a 257-byte bloom", ok, p)
}

func TestC15_Known_BscUpgradeMalformedStoreKey(t *testing.T) {
	w := baseWorld()
	for _, key := range []string{"recentSingers", "consensusStates/short"} {
		gs := clienttypes.GenesisState{
			Clients:         []clienttypes.IdentifiedClientState{{ChainName: "bsc-test", ClientState: mustAny(fixedBSC(200))}},
			ClientsMetadata: []clienttypes.IdentifiedGenesisMetadata{{ChainName: "bsc-test", Metadata: []clienttypes.GenesisMetadata{{Key: []byte(key), Value: []byte{1}}}}},
			NativeChainName: w.c.ChainID,
		}
		var verr error
		vp := guard(func() { verr = gs.Validate() })
		ok := vp == nil && verr == nil
		var p *panicInfo
		if ok {
			ctx, _ := w.c.Ctx().CacheContext()
			kit.Must(asErr(guard(func() { xibcclient.InitGenesis(ctx, w.c.App.XIBCKeeper.ClientKeeper, gs) })), "InitGenesis of the pinned state")
			up := &clienttypes.UpgradeClientProposal{Title: "t", Description: "d", ChainName: "bsc-test", ClientState: mustAny(fixedBSC(200)), ConsensusState: mustAny(fixedCons("bsc"))}
			content, okc := acceptedContent(w, up)
			ok = okc
			if okc {
				p = guard(func() { _ = execLikeGov(ctx, w.xibcH, content) })
			}
		}
		pinned(t, "TestC15_Known_BscUpgradeMalformedStoreKey", "bsc-upgrade-malformed-store-key",
			fmt.Sprintf("genesis with BSC client metadata key %q, then a well-formed UpgradeClient proposal", key), ok, p)
	}
}

func asErr(p *panicInfo) error {
	if p == nil {
		return nil
	}
	return fmt.Errorf("%s", p)
}

func TestC15_Known_RVestingRewardInvalidDenom(t *testing.T) {
	w := baseWorld()
	ctx, _ := w.c.Ctx().CacheContext()
	prop := paramproposal.NewParameterChangeProposal("t", "d", []paramproposal.ParamChange{
		{Subspace: rvestingtypes.ModuleName, Key: string(rvestingtypes.KeyPerBlockReward), Value: `[{"denom":"ab","amount":"5"}]`},
		{Subspace: rvestingtypes.ModuleName, Key: string(rvestingtypes.KeyEnableVesting), Value: `true`},
	})
	content, ok := acceptedContent(w, prop)
	var p *panicInfo
	if ok {
		var err error
		if hp := guard(func() { err = execLikeGov(ctx, w.paramH, content) }); hp != nil || err != nil {
			ok = false // the value is not accepted by parameter validation
		} else {
			p = guard(func() { rvesting.BeginBlocker(ctx, w.c.App.RVestingKeeper) })
		}
	}
	pinned(t, "TestC15_Known_RVestingRewardInvalidDenom", "rvesting-reward-invalid-denom", "parameter change PerBlockReward=[5ab], EnableVesting=true, then BeginBlocker", ok, p)
}

func TestC15_Known_RVestingGenesisDisabledReward(t *testing.T) {
	w := baseWorld()
	cdc := w.c.App.AppCodec()
	gs := rvestingtypes.GenesisState{Params: rvestingtypes.Params{EnableVesting: false, PerBlockReward: sdk.Coins{}}}
	bz, err := cdc.MarshalJSON(&gs)
	kit.Must(err, "marshal genesis")
	var verr error
	vp := guard(func() { verr = rvestingmodule.AppModuleBasic{}.ValidateGenesis(cdc, nil, bz) })
	ok := vp == nil && verr == nil
	var p *panicInfo
	if ok {
		ctx, _ := w.c.Ctx().CacheContext()
		p = guard(func() { rvestingmodule.NewAppModule(w.c.App.RVestingKeeper).InitGenesis(ctx, cdc, bz) })
	}
	pinned(t, "TestC15_Known_RVestingGenesisDisabledReward", "rvesting-genesis-disabled-reward", "rvesting genesis with EnableVesting=false and an empty PerBlockReward", ok, p)
}

func TestC15_Known_XibcGenesisRelayerEmptyAddress(t *testing.T) {
	w := baseWorld()
	cdc := w.c.App.AppCodec()
	def := xibcmodule.AppModuleBasic{}.DefaultGenesis(cdc)
	_ = def
	gsClient := clienttypes.GenesisState{NativeChainName: w.c.ChainID, Relayers: []clienttypes.IdentifiedRelayer{{Address: "", Chains: []string{"bsc-test"}, Addresses: []string{"0x01"}}}}
	full := xibcGenesisJSON(w, gsClient)
	var verr error
	vp := guard(func() { verr = xibcmodule.AppModuleBasic{}.ValidateGenesis(cdc, nil, full) })
	ok := vp == nil && verr == nil
	var p *panicInfo
	if ok {
		ctx, _ := w.c.Ctx().CacheContext()
		p = guard(func() { xibcmodule.NewAppModule(w.c.App.XIBCKeeper).InitGenesis(ctx, cdc, full) })
	}
	pinned(t, "TestC15_Known_XibcGenesisRelayerEmptyAddress", "xibc-genesis-relayer-empty-address", "xibc genesis with one relayer entry whose address is empty", ok, p)
}
