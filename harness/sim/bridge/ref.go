package bridge

import (
	"bytes"
	"crypto/sha256"
	"encoding/json"
	"fmt"

	ics23 "github.com/confio/ics23/go"
	ibccommitment "github.com/cosmos/ibc-go/v3/modules/core/23-commitment/types"
	"github.com/ethereum/go-ethereum/accounts/abi"

	packettypes "github.com/teleport-network/teleport/x/xibc/core/packet/types"
	"github.com/teleport-network/teleport/x/xibc/exported"
)

// RefPacket is the reference decoding of packet bytes (go-ethereum ABI only).
type RefPacket struct {
	SrcChain        string `json:"src_chain"`
	DstChain        string `json:"dst_chain"`
	Sequence        uint64 `json:"sequence"`
	Sender          string `json:"sender"`
	TransferData    []byte `json:"transfer_data"`
	CallData        []byte `json:"call_data"`
	CallbackAddress string `json:"callback_address"`
	FeeOption       uint64 `json:"fee_option"`
}

// RefDecodePacket decodes packet bytes and returns the canonical re-encoding.
func RefDecodePacket(bz []byte) (RefPacket, []byte, error) {
	args := abi.Arguments{{Type: packettypes.TuplePacketData}}
	vals, err := args.Unpack(bz)
	if err != nil {
		return RefPacket{}, nil, err
	}
	tmp, err := json.Marshal(vals[0])
	if err != nil {
		return RefPacket{}, nil, err
	}
	var p RefPacket
	if err := json.Unmarshal(tmp, &p); err != nil {
		return RefPacket{}, nil, err
	}
	canon, err := args.Pack(struct {
		SrcChain        string
		DstChain        string
		Sequence        uint64
		Sender          string
		TransferData    []byte
		CallData        []byte
		CallbackAddress string
		FeeOption       uint64
	}{p.SrcChain, p.DstChain, p.Sequence, p.Sender, nz(p.TransferData), nz(p.CallData), p.CallbackAddress, p.FeeOption})
	if err != nil {
		return RefPacket{}, nil, err
	}
	return p, canon, nil
}

func nz(b []byte) []byte {
	if b == nil {
		return []byte{}
	}
	return b
}

// RefVerifyMembership checks an encoded two-level ICS-23 membership proof (iavl store "xibc" inside
// the tendermint-style multistore) of key -> value against root, using confio/ics23 only.
func RefVerifyMembership(proofBz []byte, root []byte, key string, value []byte) error {
	var mp ibccommitment.MerkleProof
	if err := mp.Unmarshal(proofBz); err != nil {
		return fmt.Errorf("proof does not unmarshal: %w", err)
	}
	if len(mp.Proofs) != 2 {
		return fmt.Errorf("proof has %d levels, want 2", len(mp.Proofs))
	}
	if len(value) == 0 || len(root) == 0 {
		return fmt.Errorf("empty value or root")
	}
	for i, p := range mp.Proofs {
		if p == nil {
			return fmt.Errorf("nil proof at level %d", i)
		}
		if _, ok := p.Proof.(*ics23.CommitmentProof_Exist); !ok {
			return fmt.Errorf("level %d is not an existence proof", i)
		}
	}
	sub, err := mp.Proofs[0].Calculate()
	if err != nil {
		return err
	}
	if !ics23.VerifyMembership(ics23.IavlSpec, sub, mp.Proofs[0], []byte(key), value) {
		return fmt.Errorf("store-level membership fails")
	}
	top, err := mp.Proofs[1].Calculate()
	if err != nil {
		return err
	}
	if !ics23.VerifyMembership(ics23.TendermintSpec, top, mp.Proofs[1], []byte("xibc"), sub) {
		return fmt.Errorf("multistore-level membership fails")
	}
	if !bytes.Equal(top, root) {
		return fmt.Errorf("proof root %x differs from consensus root %x", top, root)
	}
	return nil
}

func refBasic(p RefPacket, self string) error {
	switch {
	case p.SrcChain == "" || p.DstChain == "":
		return fmt.Errorf("empty chain")
	case p.SrcChain == p.DstChain:
		return fmt.Errorf("src = dst")
	case p.Sequence == 0:
		return fmt.Errorf("sequence 0")
	case len(p.TransferData) == 0 && len(p.CallData) == 0:
		return fmt.Errorf("no data")
	case p.SrcChain != self && p.DstChain != self:
		return fmt.Errorf("not addressed to or from this chain")
	}
	return nil
}

// consRoot returns the root the client of `name` on chain ci stored at height h (nil if none), and the client's latest height.
func (w *World) consRoot(ci int, name string, h exported.Height) ([]byte, exported.Height, bool) {
	c := w.Chains[ci]
	cs, ok := c.App.XIBCKeeper.ClientKeeper.GetClientState(c.Ctx(), name)
	if !ok || cs.ClientType() != exported.Tendermint {
		return nil, nil, false
	}
	cons, ok := c.App.XIBCKeeper.ClientKeeper.GetClientConsensusState(c.Ctx(), name, h)
	if !ok {
		return nil, cs.GetLatestHeight(), true
	}
	return cons.GetRoot(), cs.GetLatestHeight(), true
}

// RefRecvValid is the reference verdict for a receive on chain ci: nil iff the message proves, at a
// consensus state the client accepted at the stated height, that the source stored the hash of exactly this
// packet under exactly its path. (Authorisation of the signer and replay are judged separately.)
func (w *World) RefRecvValid(ci int, msg *packettypes.MsgRecvPacket) error {
	p, canon, err := RefDecodePacket(msg.Packet)
	if err != nil {
		return fmt.Errorf("packet does not decode: %w", err)
	}
	if err := refBasic(p, w.Chains[ci].ChainID); err != nil {
		return err
	}
	root, latest, ok := w.consRoot(ci, p.SrcChain, msg.ProofHeight)
	if !ok {
		return fmt.Errorf("no tendermint client for %s", p.SrcChain)
	}
	if root == nil {
		return fmt.Errorf("no consensus state at %s", msg.ProofHeight)
	}
	if latest.LT(msg.ProofHeight) {
		return fmt.Errorf("height above latest")
	}
	sum := sha256.Sum256(canon)
	key := fmt.Sprintf("commitments/%s/%s/sequences/%d", p.SrcChain, p.DstChain, p.Sequence)
	return RefVerifyMembership(msg.ProofCommitment, root, key, sum[:])
}

// RefAckValid is the reference verdict for an acknowledgement on chain ci.
func (w *World) RefAckValid(ci int, msg *packettypes.MsgAcknowledgement) error {
	p, canon, err := RefDecodePacket(msg.Packet)
	if err != nil {
		return fmt.Errorf("packet does not decode: %w", err)
	}
	c := w.Chains[ci]
	if err := refBasic(p, c.ChainID); err != nil {
		return err
	}
	sum := sha256.Sum256(canon)
	stored := c.App.XIBCKeeper.PacketKeeper.GetPacketCommitment(c.Ctx(), p.SrcChain, p.DstChain, p.Sequence)
	if !bytes.Equal(stored, sum[:]) {
		return fmt.Errorf("this chain does not hold the commitment of exactly this packet")
	}
	root, latest, ok := w.consRoot(ci, p.DstChain, msg.ProofHeight)
	if !ok {
		return fmt.Errorf("no tendermint client for %s", p.DstChain)
	}
	if root == nil {
		return fmt.Errorf("no consensus state at %s", msg.ProofHeight)
	}
	if latest.LT(msg.ProofHeight) {
		return fmt.Errorf("height above latest")
	}
	if len(msg.Acknowledgement) == 0 {
		return fmt.Errorf("empty ack")
	}
	asum := sha256.Sum256(msg.Acknowledgement)
	key := fmt.Sprintf("acks/%s/%s/sequences/%d", p.SrcChain, p.DstChain, p.Sequence)
	return RefVerifyMembership(msg.ProofAcked, root, key, asum[:])
}
