#!/bin/sh
# fixcheck.sh <fix.diff> <regex of C18 finding keys to drop> [check args]: bin/mutcheck plus removal of the named finding lines in the scratch copy; rc=0 means the check passes with the fix and without its finding line (fix-toggle-both.diff = the two toggle patches together, fix-all.diff = all five)
PATCH="$1"; DROP="$2"; shift 2
TAG="c18fd-$$"; WT=/tmp/$TAG-repo; VF=/tmp/$TAG-verif
cleanup() { git -C /repo worktree remove --force "$WT" >/dev/null 2>&1; rm -rf "$WT" "$VF"; git -C /repo worktree prune; }
trap cleanup EXIT INT TERM
git -C /repo worktree add --detach "$WT" HEAD >/dev/null 2>&1 || exit 2
git -C /repo diff HEAD | (cd "$WT" && git apply --allow-empty 2>/dev/null)
(cd "$WT" && git apply "$PATCH") || { echo "patch does not apply"; exit 2; }
mkdir -p "$VF"
rsync -a --exclude .git --exclude .build --exclude .work --exclude replays --exclude evidence /verif/ "$VF"/
sed -i "s#=> /repo#=> $WT#" "$VF/harness/go.mod"
grep -v -E "property=C18 key=($DROP) " "$VF/KNOWN_FINDINGS.txt" > "$VF/kf.tmp"; mv "$VF/kf.tmp" "$VF/KNOWN_FINDINGS.txt"
echo "C18 findings still listed: $(grep -c 'property=C18' "$VF/KNOWN_FINDINGS.txt")"
"$VF/bin/check" C18 "$@"; rc=$?
python3 - "$VF/evidence/C18.json" <<'PY'
import json,sys
d=json.load(open(sys.argv[1]))
c=d['coverage']
print('evaluations',c['evaluations'],'distinct',c['distinct_nontrivial'],'excluded',c['excluded_known_findings'],'reproduced',list(c['known_findings_reproduced']))
tog=sorted((k,v) for k,v in c['labels'].items() if k.startswith('cell:toggle') and 'tendermint>' in k)
print(tog)
PY
echo "fixcheck: $(basename $PATCH) drop=$DROP -> rc=$rc (0 = check passes with the fix and without the finding line)"
